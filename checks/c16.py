"""C16 Masked actions are never chosen; key-less policies act greedily."""

from __future__ import annotations

import itertools

import numpy as np

RULE = ("cases = one (parameters, mask) pair run through the real lerax code and judged against a float64 "
        "reference built from the property text: masked Categorical (every non-empty mask for n<=5, n<=6 "
        "thorough), MultiCategorical (every combination of non-empty component masks for dims up to (3,3,2)), "
        "Bernoulli (every bit mask for n<=4) in eager / jit / vmap+jit with logits classes normal, wide, "
        "masked-dominant (masked logits 30..1000 above the allowed ones), ties, -inf allowed entries and the "
        "probs= constructor; MLPActorCriticPolicy over Discrete / MultiBinary / MultiDiscrete (reference "
        "distribution recomputed from the policy weights by a NumPy float64 forward pass), MLPQPolicy and a "
        "table AbstractQPolicy with epsilon in {0, 0.1, 0.5, 1}, MLPSACPolicy / Box actor-critic for the "
        "key-less greedy clause, and PPO / A2C / DQN collection on masked finite MDPs; non-trivial = the mask "
        "removes at least one action (or, for the greedy / epsilon / continuous classes that carry no mask, "
        "the policy has a unique greedy action); distinct by hash of parameters, mask, mode")
FLOOR = {"quick": 400, "thorough": 4000}
ASSUMPTIONS = [
    "float64 NumPy softmax / sigmoid over the allowed entries is the definition of the masked law "
    "(p_i / sum of allowed p_j is computed through the logits, which is the same number without underflow)",
    "tolerances: probabilities 2e-6 + p*(2e-5 + 8*eps32*max|logit|), log-probs 1e-5 + 1e-5*|lp| + 8*eps32*max|logit|; "
    "policy legs add 1e-4*(1+max|logit|) for the float32 forward pass; masked probabilities and log-probs exact (0, -inf)",
    "mode ties: any allowed action whose reference log-prob is within the log-prob tolerance of the maximum is accepted",
    "statistical monitors (sample frequencies, epsilon bound, KS) use exact binomial / KS tails at 1e-10 per cell",
    "masks with no allowed action, parameters that give every allowed action probability 0, NaN / +inf parameters "
    "are excluded as ambiguous; for MultiBinary the all-zero action is always allowed, a masked bit is never set",
    "squashed-Gaussian policies: the 'mode (greedy) action' is the image of the Gaussian mean under the squashing "
    "map (the SAC convention); the density mode of a squashed Gaussian need not exist and is not demanded",
    "NumPy re-implementation of eqx.nn.MLP / Linear forward passes (weights read from the policy) is trusted",
]

EPS32 = float(np.finfo(np.float32).eps)
ALPHA = 1e-10


def units(tier):
    names = ["categorical", "multicategorical", "bernoulli", "ac_discrete", "ac_multibinary",
             "ac_multidiscrete", "q_mlp", "q_table", "continuous", "rollout"]
    return [{"name": n, "timeout": 600 if tier == "quick" else 2400} for n in names]


# --------------------------------------------------------------------------- reference side
def f64(x):
    return np.asarray(x, dtype=np.float64)


def all_masks(n, allow_empty=False):
    out = [np.array(b, dtype=bool) for b in itertools.product([False, True], repeat=n)]
    return out if allow_empty else [m for m in out if m.any()]


def bits(m):
    return "".join("1" if x else "0" for x in np.asarray(m).ravel())


def comp_cat(logits, mask):
    """allowed set and reference log-probs of one masked categorical; None if no allowed entry has mass."""
    lg, m = f64(logits), np.asarray(mask, dtype=bool)
    al = np.where(m, lg, -np.inf)
    mx = al.max() if al.size else -np.inf
    if not np.isfinite(mx):
        return None
    with np.errstate(divide="ignore"):
        z = al - mx
        lse = np.log(np.sum(np.exp(z)))
        return m.copy(), np.where(m, z - lse, -np.inf)


def comp_bit(logit, allowed):
    """one bit: value 0 is always allowed, value 1 only where the mask is true."""
    if not allowed:
        return np.array([True, False]), np.array([0.0, -np.inf])
    lg = float(logit)
    return np.array([True, True]), np.array([-np.logaddexp(0.0, lg), -np.logaddexp(0.0, -lg)])


class Ref:
    """Finite product action space: per-component allowed sets and float64 reference log-probs."""

    def __init__(self, comps, params, flat_p, flat_masked):
        self.comps = comps
        self.nvec = tuple(len(a) for a, _ in comps)
        d = len(self.nvec)
        self.actions = np.array(list(itertools.product(*[range(n) for n in self.nvec])), dtype=np.int64).reshape(-1, d)
        self.allowed = np.all([comps[i][0][self.actions[:, i]] for i in range(d)], axis=0)
        self.logp = np.sum([comps[i][1][self.actions[:, i]] for i in range(d)], axis=0)
        self.p = np.exp(self.logp)
        pr = f64(params).ravel()
        pr = pr[np.isfinite(pr)]
        self.L = float(np.max(np.abs(pr))) if pr.size else 0.0
        self.flat_p, self.flat_masked = f64(flat_p), np.asarray(flat_masked, dtype=bool)
        self.restricts = bool((~self.allowed).any())

    def index(self, acts):
        a = np.asarray(acts).astype(np.int64).reshape(-1, len(self.nvec))
        nv = np.asarray(self.nvec)
        badrow = ((a < 0) | (a >= nv)).any(axis=1)
        idx = np.ravel_multi_index(np.clip(a, 0, nv - 1).T, self.nvec)
        idx[badrow] = -1
        return idx


def ref_cat(logits, mask):
    c = comp_cat(logits, mask)
    if c is None:
        return None
    return Ref([c], logits, np.exp(c[1]), ~c[0])


def ref_multi(logits_flat, nvec, mask_flat):
    lg, m = f64(logits_flat), np.asarray(mask_flat, dtype=bool)
    comps, o = [], 0
    for n in nvec:
        c = comp_cat(lg[o:o + n], m[o:o + n])
        if c is None:
            return None
        comps.append(c)
        o += n
    return Ref(comps, lg, np.concatenate([np.exp(c[1]) for c in comps]), np.concatenate([~c[0] for c in comps]))


def ref_bits(logits, mask):
    lg, m = f64(logits).ravel(), np.asarray(mask, dtype=bool).ravel()
    comps = [comp_bit(lg[i], m[i]) for i in range(len(lg))]
    return Ref(comps, lg, np.array([np.exp(c[1][1]) for c in comps]), ~m)


class Tol:
    def __init__(self, L=0.0, fwd=0.0, ncomp=1):
        s = 8 * EPS32 * L + fwd
        self.p_abs, self.p_rel = 2e-6 * ncomp, (2e-5 + s) * ncomp
        self.lp_abs, self.lp_rel = (1e-5 + s) * ncomp, 1e-5
        self.tie = 2e-5 + 2 * s


def _far(got, want, atol, rtol):
    """True where got is not within tolerance of want (NaN counts as far)."""
    got, want = f64(got), f64(want)
    return ~(np.abs(got - want) <= atol + rtol * np.abs(want))


def freq_off(counts, N, p):
    """cells whose count is incompatible (exact binomial tail < ALPHA) with probability p."""
    from scipy.stats import binom

    counts, p = np.asarray(counts), np.clip(f64(p), 0.0, 1.0)
    lo = binom.cdf(counts, N, p)
    hi = binom.sf(counts - 1, N, p)
    return np.minimum(lo, hi) < ALPHA


def judge(ctx, pre, ref, out, tol, desc, cls, wit, nontrivial=None):
    """Judge one execution. `out` (NumPy) may hold: probs_flat, logp_all, prob_all, modes (list of repeated
    key-less actions), samples, slp_s / slp_lp (sampled action with reported log-prob), eval_lp (log-prob
    another entry point reports for slp_s)."""
    ok = [True]

    def bad(key, **d):
        ok[0] = False
        ctx.violation(f"{pre}-{key}", {**desc, **wit, **d})

    ctx.case(desc, nontrivial=ref.restricts if nontrivial is None else nontrivial, cls=cls)
    nc = len(ref.nvec)
    if "probs_flat" in out:
        g = f64(out["probs_flat"]).ravel()
        ctx.monitor("masked_prob_entries_checked", int(ref.flat_masked.sum()))
        ctx.monitor("renormalised_prob_entries_checked", int((~ref.flat_masked).sum()))
        if g.shape != ref.flat_p.shape:
            bad("probs-shape", got=g.shape, want=ref.flat_p.shape)
        elif np.any(g[ref.flat_masked] != 0.0):
            bad("masked-prob-nonzero", got=g, want=ref.flat_p)
        elif np.any(_far(g, ref.flat_p, tol.p_abs, tol.p_rel)):
            bad("renormalisation-wrong", got=g, want=ref.flat_p)
    if "logp_all" in out:
        g = f64(out["logp_all"]).ravel()
        ma = ~ref.allowed
        fin = ref.allowed & np.isfinite(ref.logp)
        ctx.monitor("masked_action_logprobs_checked", int(ma.sum()))
        if g.shape != ref.logp.shape:
            bad("logprob-shape", got=g.shape)
        elif np.any(g[ma] != -np.inf):
            bad("masked-logprob-not-neginf", got=g, want=ref.logp)
        elif np.any(_far(g[fin], ref.logp[fin], tol.lp_abs, tol.lp_rel)):
            bad("logprob-mismatch", got=g, want=ref.logp)
    if "prob_all" in out:
        g = f64(out["prob_all"]).ravel()
        if np.any(g[~ref.allowed] != 0.0):
            bad("masked-prob-nonzero", got=g, want=ref.p, via="prob()")
        elif np.any(_far(g, ref.p, tol.p_abs, tol.p_rel)):
            bad("renormalisation-wrong", got=g, want=ref.p, via="prob()")
    if "modes" in out:
        # out["modes"]: key-less actions from the primary program; out["modes_x"]: {execution mode: [repeated calls]}
        groups = {"primary": out["modes"], **out.get("modes_x", {})}
        groups = {g: [np.asarray(m).astype(np.int64).ravel() for m in ms] for g, ms in groups.items()}
        unique = True
        for g, ms in groups.items():
            ctx.monitor("keyless_actions_checked", len(ms))
            if any(m.shape != ms[0].shape or not np.array_equal(m, ms[0]) for m in ms[1:]):
                bad("keyless-not-deterministic", got=[m.tolist() for m in ms], execution=g)
            m = ms[0]
            i = int(ref.index(m)[0]) if m.size == nc else -1
            if i < 0:
                bad("mode-out-of-range", got=m, execution=g)
            elif not ref.allowed[i]:
                bad("mode-masked", got=m, want_logp=ref.logp, execution=g)
            else:
                for c in range(nc):
                    lp = ref.comps[c][1]
                    if not lp[m[c]] >= lp.max() - tol.tie:
                        bad("mode-not-argmax", got=m, component=c, want=int(np.argmax(lp)), ref_logp=lp, execution=g)
                        break
                    if np.sum(lp >= lp.max() - tol.tie) > 1:
                        unique = False
        ctx.monitor("mode_unique_argmax_decided" if unique else "mode_tie_tolerated")
        firsts = [ms[0] for ms in groups.values()]
        if unique and any(not np.array_equal(m, firsts[0]) for m in firsts[1:]):
            # with a unique maximiser eager, jit and vmap executions must agree; near ties they may legitimately differ
            bad("keyless-differs-between-executions", got={g: ms[0].tolist() for g, ms in groups.items()})
    if "samples" in out:
        s = np.asarray(out["samples"])
        N = s.shape[0]
        idx = ref.index(s)
        ctx.monitor("samples_checked", N)
        if ref.restricts:
            ctx.monitor("samples_under_restricting_mask", N)
        if np.any(idx < 0):
            bad("sample-out-of-range", got=s[idx < 0][:4], n_bad=int((idx < 0).sum()))
        elif np.any(~ref.allowed[idx]):
            nb = ~ref.allowed[idx]
            bad("sample-masked", got=s[nb][:4], n_masked=int(nb.sum()), n_samples=N)
        else:
            cnt = np.bincount(idx, minlength=len(ref.p))
            off = freq_off(cnt, N, ref.p)
            ctx.monitor("sample_frequency_cells_checked", len(cnt))
            if np.any(off):
                bad("sample-frequency-off", counts=cnt, n_samples=N, want_p=ref.p)
    if "slp_s" in out:
        s, lp = np.asarray(out["slp_s"]), f64(out["slp_lp"]).ravel()
        idx = ref.index(s)
        ctx.monitor("sampled_logprobs_checked", len(lp))
        if np.any(idx < 0):
            bad("sample-out-of-range", got=s[idx < 0][:4], via="sample_and_log_prob")
        elif np.any(~ref.allowed[idx]):
            nb = ~ref.allowed[idx]
            bad("sample-masked", got=s[nb][:4], n_masked=int(nb.sum()), n_samples=len(lp), via="sample_and_log_prob")
        elif np.any(_far(lp, ref.logp[idx], tol.lp_abs, tol.lp_rel)):
            j = int(np.argmax(_far(lp, ref.logp[idx], tol.lp_abs, tol.lp_rel)))
            bad("sampled-logprob-mismatch", action=s[j], got=lp[j], want=ref.logp[idx][j])
        else:
            if "eval_lp" in out:
                e = f64(out["eval_lp"]).ravel()
                if np.any(_far(e, lp, 2e-5, 2e-5)):
                    j = int(np.argmax(_far(e, lp, 2e-5, 2e-5)))
                    bad("evaluate-action-disagrees-with-action-and-value", action=s[j], got=e[j], want=lp[j])
            # the actions drawn together with their log-probability follow that very (joint) law
            cnt = np.bincount(idx, minlength=len(ref.p))
            ctx.monitor("sampled_with_logprob_frequency_cells_checked", len(cnt))
            if np.any(freq_off(cnt, len(idx), ref.p)):
                bad("sampled-with-logprob-frequency-off", counts=cnt, n_samples=len(idx), want_p=ref.p)
    return ok[0]


# --------------------------------------------------------------------------- parameter generators
CAT_CLASSES = ["normal", "small", "wide", "masked-dominant", "ties", "neginf-allowed", "probs-form"]


def gen_cat_params(rng, n, mask, kind):
    """float32 parameters of class `kind` for a categorical with `n` entries; returns (form, params)."""
    m = np.asarray(mask, dtype=bool)
    na = int(m.sum())
    if kind == "probs-form":
        p = rng.dirichlet(np.full(n, 0.7)).astype(np.float32)
        if n > 1 and rng.random() < 0.5:
            p[rng.integers(n)] = 0.0
        if not (p[m] > 0).any():
            p[np.flatnonzero(m)[0]] = np.float32(0.25)
        return "probs", p
    x = rng.normal(0, {"small": 0.2, "wide": 50.0}.get(kind, float(rng.choice([1.0, 3.0]))), size=n)
    if kind == "masked-dominant" and na < n:
        x[~m] += float(rng.choice([30.0, 100.0, 300.0, 1000.0])) + np.abs(x).max()
    if kind == "ties" and na >= 2:
        ai = np.flatnonzero(m)
        j = rng.choice(ai, size=int(rng.integers(2, na + 1)), replace=False)
        x[j] = x[ai].max() + 0.5
    if kind == "neginf-allowed" and na >= 2:
        x[rng.choice(np.flatnonzero(m))] = -np.inf
    return "logits", x.astype(np.float32)


def params_to_logits(form, p):
    if form == "logits":
        return f64(p)
    with np.errstate(divide="ignore"):
        return np.log(f64(p))


# --------------------------------------------------------------------------- distribution units
def _short(e):
    return f"{type(e).__name__}: {e}"[:300]


def _raise_key(e, default):
    """Mechanism key for an exception raised by lerax: the non-jittable flat split of MultiCategorical is one
    mechanism wherever it surfaces."""
    import traceback

    tb = "".join(traceback.format_exception(type(e), e, e.__traceback__))
    if "ConcretizationTypeError" in type(e).__name__ + tb and "_split_or_unpack_params" in tb:
        return "multicategorical-flat-split-raises-under-jit"
    return default


def _np_out(tree):
    import jax

    return jax.tree.map(np.asarray, tree)


def u_categorical(ctx):
    import equinox as eqx
    import jax
    from jax import numpy as jnp
    from jax import random as jr
    from lerax.distribution import Categorical
    from vlib.common import digest

    def make(n, form, N):
        def f(param, mask, key):
            base = Categorical(logits=param) if form == "logits" else Categorical(probs=param)
            d = base.mask(mask)
            k1, k2 = jr.split(key)
            acts = jnp.arange(n)
            s2, lp2 = jax.vmap(d.sample_and_log_prob)(jr.split(k2, N))
            return dict(probs_flat=d.probs, modes=[d.mode()], logp_all=jax.vmap(d.log_prob)(acts),
                        prob_all=jax.vmap(d.prob)(acts), samples=jax.vmap(d.sample)(jr.split(k1, N)),
                        slp_s=s2, slp_lp=lp2, ent=d.entropy())
        return f

    def run_judge(n, form, p, m, out, mode, kind):
        ref = ref_cat(params_to_logits(form, p), m)
        if ref is None:
            ctx.monitor("excluded_no_allowed_mass")
            return
        ent = out.pop("ent")
        ctx.monitor("entropy_finite" if np.isfinite(ent) else "entropy_not_finite_under_mask")
        judge(ctx, "categorical", ref, out, Tol(ref.L),
              {"n": n, "mask": bits(m), "form": form, "mode": mode, "h": digest(p, m)},
              f"categorical/{kind}/{mode}", {"params": p})

    nmax = ctx.n(5, 6)
    reps = ctx.n(1, 6)
    N = 512
    kc = 0
    for n in range(1, nmax + 1):
        masks = all_masks(n)
        for form in ("logits", "probs"):
            cases = []
            for m in masks:
                for kind in CAT_CLASSES:
                    if (kind == "probs-form") != (form == "probs"):
                        continue
                    for _ in range(reps):
                        fm, p = gen_cat_params(ctx.rng, n, m, kind)
                        cases.append((p, m, kind))
            if not cases:
                continue
            P = jnp.asarray(np.stack([c[0] for c in cases]))
            M = jnp.asarray(np.stack([c[1] for c in cases]))
            kc += 1
            outs = _np_out(eqx.filter_jit(jax.vmap(make(n, form, N)))(P, M, jr.split(ctx.key(kc), len(cases))))
            for i, (p, m, kind) in enumerate(cases):
                run_judge(n, form, p, m, jax.tree.map(lambda x: x[i], outs), "vmap+jit", kind)
            # single-case jit and eager on a subset (concrete mask, NumPy mask for eager)
            jf = eqx.filter_jit(make(n, form, 128))
            ef = make(n, form, 32)
            step = max(1, len(cases) // ctx.n(12, 40))
            for j, (p, m, kind) in enumerate(cases[::step]):
                kc += 1
                run_judge(n, form, p, m, _np_out(jf(jnp.asarray(p), jnp.asarray(m), ctx.key(kc))), "jit", kind)
                if j % ctx.n(6, 2) == 0:
                    run_judge(n, form, p, m, _np_out(ef(jnp.asarray(p), m, ctx.key(kc + 100000))), "eager", kind)
        ctx.monitor("categorical_n_exhaustive_in_masks")
    # larger n, random masks
    for n in (8, 17):
        cases = []
        for _ in range(ctx.n(40, 400)):
            m = ctx.rng.random(n) < ctx.rng.choice([0.15, 0.5, 0.85])
            if not m.any():
                m[ctx.rng.integers(n)] = True
            kind = str(ctx.rng.choice(CAT_CLASSES[:-1]))
            cases.append((gen_cat_params(ctx.rng, n, m, kind)[1], m, kind))
        kc += 1
        outs = _np_out(eqx.filter_jit(jax.vmap(make(n, "logits", N)))(
            jnp.asarray(np.stack([c[0] for c in cases])), jnp.asarray(np.stack([c[1] for c in cases])),
            jr.split(ctx.key(kc), len(cases))))
        for i, (p, m, kind) in enumerate(cases):
            run_judge(n, "logits", p, m, jax.tree.map(lambda x: x[i], outs), "vmap+jit", kind)
    ctx.notes["exhaustive_subspaces"] = [f"Categorical: every non-empty mask for n = 1..{nmax} "
                                         f"(x {len(CAT_CLASSES)} parameter classes x {reps} draws)"]
    ctx.require("samples_under_restricting_mask", 10000)
    ctx.require("masked_prob_entries_checked", 200)
    ctx.require("mode_unique_argmax_decided", 100)


MC_DIMS_QUICK = [(2,), (3,), (2, 2), (3, 2), (2, 3), (3, 3, 2)]
MC_DIMS_THOROUGH = MC_DIMS_QUICK + [(1, 3), (4, 3), (2, 2, 2, 2), (5, 2)]


def component_mask_combos(nvec):
    return [np.concatenate(c) for c in itertools.product(*[all_masks(n) for n in nvec])]


def u_multicategorical(ctx):
    import equinox as eqx
    import jax
    from jax import numpy as jnp
    from jax import random as jr
    from lerax.distribution import MultiCategorical
    from vlib.common import digest

    def split(x, nvec):
        o, out = 0, []
        for n in nvec:
            out.append(x[..., o:o + n])
            o += n
        return out

    def make(nvec, form, mform, N):
        acts = jnp.asarray(np.array(list(itertools.product(*[range(n) for n in nvec])), dtype=np.int32))

        def f(param, mask, key):
            if form == "flat":
                base = MultiCategorical(logits=param, action_dims=nvec)
            elif form == "seq":
                base = MultiCategorical(logits=split(param, nvec))
            else:
                base = MultiCategorical(probs=param, action_dims=nvec)
            d = base.mask(mask if mform == "flat" else split(mask, nvec))
            k1, k2 = jr.split(key)
            s2, lp2 = jax.vmap(d.sample_and_log_prob)(jr.split(k2, N))
            return dict(probs_flat=d.probs, modes=[d.mode()], logp_all=jax.vmap(d.log_prob)(acts),
                        prob_all=jax.vmap(d.prob)(acts), samples=jax.vmap(d.sample)(jr.split(k1, N)),
                        slp_s=s2, slp_lp=lp2)
        return f

    dims = MC_DIMS_QUICK if ctx.quick else MC_DIMS_THOROUGH
    reps = ctx.n(1, 4)
    kc = 0
    for nvec in dims:
        combos = component_mask_combos(nvec)
        for ci, (form, mform) in enumerate([("flat", "flat"), ("seq", "seq"), ("probs", "flat"), ("flat", "seq")]):
            if ctx.quick and ci == 3:
                continue
            cases = []
            for m in combos:
                for _ in range(reps):
                    kind = "probs-form" if form == "probs" else str(ctx.rng.choice(CAT_CLASSES[:-1]))
                    parts, o = [], 0
                    for n in nvec:
                        parts.append(gen_cat_params(ctx.rng, n, m[o:o + n], kind)[1])
                        o += n
                    cases.append((np.concatenate(parts), m, kind))
            kc += 1
            args = (jnp.asarray(np.stack([c[0] for c in cases])), jnp.asarray(np.stack([c[1] for c in cases])),
                    jr.split(ctx.key(kc), len(cases)))
            mode = "vmap+jit"
            try:
                outs = _np_out(eqx.filter_jit(jax.vmap(make(nvec, form, mform, 512)))(*args))
                ctx.monitor("multicategorical_jit_batches_ok")
            except Exception as e:
                # masking (or building) the law raises under jit: a violation of its own; the values are still
                # judged through vmap without jit so that this defect does not hide others
                ctx.monitor("multicategorical_jit_batches_raised")
                ctx.violation(_raise_key(e, "multicategorical-raises-under-jit"),
                              {"nvec": list(nvec), "form": form, "maskform": mform, "error": _short(e)})
                mode = "vmap-nojit"
                outs = _np_out(jax.vmap(make(nvec, form, mform, 512))(*args))
            for i, (p, m, kind) in enumerate(cases):
                if form == "probs":
                    lg = np.concatenate([params_to_logits("probs", x / f64(x).sum()) for x in split(p, nvec)])
                else:
                    lg = f64(p)
                ref = ref_multi(lg, nvec, m)
                if ref is None:
                    ctx.monitor("excluded_no_allowed_mass")
                    continue
                judge(ctx, "multicategorical", ref, jax.tree.map(lambda x: x[i], outs), Tol(ref.L, ncomp=len(nvec)),
                      {"nvec": list(nvec), "mask": bits(m), "form": form, "maskform": mform, "mode": mode,
                       "h": digest(p, m)}, f"multicategorical/{form}-{mform}/{kind}/{mode}", {"params": p})
            # eager, concrete masks
            ef = make(nvec, form, mform, 32)
            step = max(1, len(cases) // ctx.n(6, 20))
            for (p, m, kind) in cases[::step]:
                kc += 1
                out = _np_out(ef(jnp.asarray(p), jnp.asarray(m), ctx.key(kc)))
                lg = (np.concatenate([params_to_logits("probs", x / f64(x).sum()) for x in split(p, nvec)])
                      if form == "probs" else f64(p))
                ref = ref_multi(lg, nvec, m)
                if ref is not None:
                    judge(ctx, "multicategorical", ref, out, Tol(ref.L, ncomp=len(nvec)),
                          {"nvec": list(nvec), "mask": bits(m), "form": form, "maskform": mform, "mode": "eager",
                           "h": digest(p, m)}, f"multicategorical/{form}-{mform}/eager", {"params": p})
        ctx.monitor("multicategorical_dims_exhaustive_in_component_masks")
    ctx.notes["exhaustive_subspaces"] = [f"MultiCategorical: every combination of non-empty component masks for "
                                         f"dims {dims}"]
    ctx.require("samples_under_restricting_mask", 10000)
    ctx.require("masked_action_logprobs_checked", 500)
    ctx.require("mode_unique_argmax_decided", 100)


BERN_CLASSES = ["normal", "small", "saturated", "masked-dominant", "half", "probs-form"]


def gen_bern_params(rng, n, mask, kind):
    m = np.asarray(mask, dtype=bool).ravel()
    if kind == "probs-form":
        p = rng.uniform(0.02, 0.98, size=n)
        if rng.random() < 0.3:
            p[rng.integers(n)] = float(rng.choice([0.0, 1.0]))
        return "probs", p.astype(np.float32)
    x = rng.normal(0, {"small": 0.2, "saturated": 12.0}.get(kind, 1.5), size=n)
    if kind == "masked-dominant":
        x[~m] = rng.uniform(20, 80, size=int((~m).sum()))
    if kind == "half":
        x[rng.integers(n)] = 0.0
    return "logits", x.astype(np.float32)


def u_bernoulli(ctx):
    import equinox as eqx
    import jax
    from jax import numpy as jnp
    from jax import random as jr
    from lerax.distribution import Bernoulli
    from vlib.common import digest

    def make(shape, form, N):
        k = int(np.prod(shape))
        acts = jnp.asarray(np.array(list(itertools.product([0, 1], repeat=k)), dtype=np.int32).reshape((-1,) + shape))

        def f(param, mask, key):
            base = Bernoulli(logits=param) if form == "logits" else Bernoulli(probs=param)
            d = base.mask(mask)
            k1, k2 = jr.split(key)
            s2, lp2 = jax.vmap(d.sample_and_log_prob)(jr.split(k2, N))
            return dict(probs_flat=d.probs, modes=[d.mode()],
                        logp_all=jax.vmap(lambda a: jnp.sum(d.log_prob(a)))(acts),
                        prob_all=jax.vmap(lambda a: jnp.prod(d.prob(a)))(acts),
                        samples=jax.vmap(d.sample)(jr.split(k1, N)).reshape(N, k),
                        slp_s=s2.reshape(N, k), slp_lp=jnp.sum(lp2.reshape(N, k), axis=-1))
        return f

    def logits_of(form, p):
        if form == "logits":
            return f64(p)
        with np.errstate(divide="ignore"):
            q = f64(p)
            return np.log(q) - np.log1p(-q)

    shapes = [(1,), (2,), (3,), (4,)] + ([] if ctx.quick else [(5,), (2, 2), (3, 2)])
    reps = ctx.n(2, 8)
    kc = 0
    for shape in shapes:
        k = int(np.prod(shape))
        masks = all_masks(k, allow_empty=True)
        for form in ("logits", "probs"):
            cases = []
            for m in masks:
                for kind in BERN_CLASSES:
                    if (kind == "probs-form") != (form == "probs"):
                        continue
                    for _ in range(reps):
                        cases.append((gen_bern_params(ctx.rng, k, m, kind)[1], m, kind))
            kc += 1
            P = jnp.asarray(np.stack([c[0].reshape(shape) for c in cases]))
            M = jnp.asarray(np.stack([c[1].reshape(shape) for c in cases]))
            outs = _np_out(eqx.filter_jit(jax.vmap(make(shape, form, 512)))(P, M, jr.split(ctx.key(kc), len(cases))))
            ef = make(shape, form, 32)
            step = max(1, len(cases) // ctx.n(8, 24))
            for i, (p, m, kind) in enumerate(cases):
                lg = logits_of(form, p)
                ref = ref_bits(lg, m)
                # a bit with |logit| below 1e-4 has no unambiguous mode: nudge the tie margin through L
                tol = Tol(ref.L, ncomp=k)
                tol.tie = max(tol.tie, 2e-4)
                desc = {"shape": list(shape), "mask": bits(m), "form": form, "h": digest(p, m)}
                judge(ctx, "bernoulli", ref, jax.tree.map(lambda x: x[i], outs), tol, {**desc, "mode": "vmap+jit"},
                      f"bernoulli/{kind}/vmap+jit", {"params": p}, nontrivial=bool((~m).any()))
                if i % step == 0:
                    kc += 1
                    out = _np_out(ef(jnp.asarray(p.reshape(shape)), m.reshape(shape), ctx.key(kc)))
                    judge(ctx, "bernoulli", ref, out, tol, {**desc, "mode": "eager"}, f"bernoulli/{kind}/eager",
                          {"params": p}, nontrivial=bool((~m).any()))
        ctx.monitor("bernoulli_shapes_exhaustive_in_masks")
    ctx.notes["exhaustive_subspaces"] = [f"Bernoulli: every bit mask (including all-masked) for shapes {shapes}"]
    ctx.require("samples_under_restricting_mask", 10000)
    ctx.require("masked_prob_entries_checked", 200)


# --------------------------------------------------------------------------- NumPy forward passes
ACT = {"relu": lambda x: np.maximum(x, 0.0), "tanh": np.tanh}


def np_linear(lin, x):
    y = f64(lin.weight) @ f64(x).reshape(-1)
    if getattr(lin, "bias", None) is not None:
        y = y + f64(lin.bias).reshape(y.shape)
    return y


def np_mlp(mlp, x, act):
    for layer in mlp.layers[:-1]:
        x = ACT[act](np_linear(layer, x))
    return np_linear(mlp.layers[-1], x)


def np_ac_params(pol, obs, act):
    """distribution parameters (logits / mean) of an MLPActorCriticPolicy for a flat observation."""
    feat = np_mlp(pol.encoder, f64(obs).ravel(), act)
    head = pol.action_head
    h = np_mlp(head.mlp, feat, act) if head.mlp is not None else feat
    ad = head.action_dist
    lin = getattr(ad, "mapping", None)
    if lin is None:
        lin = getattr(ad, "mappings")
    return np_linear(lin, h)


def small_env(rng, kind, nvec, masks=None, nS=None):
    from vlib.mdp import FiniteMDP, random_tables

    nA = int(np.prod(nvec))
    nS = nS or int(rng.integers(3, 6))
    t = random_tables(rng, nS, nA, p_term=0.25)
    kw = {} if kind == "discrete" else {"nvec": tuple(nvec)}
    return FiniteMDP(t["P"], t["R"], t["term"], t["starts"], trunc=t["trunc"], masks=masks, kind=kind, **kw), t


def gen_obs(rng, nS, i):
    if i % 4 == 0:
        o = np.zeros(nS)
        o[rng.integers(nS)] = 1.0
        return o.astype(np.float32)
    return rng.normal(0, [0.3, 1.0, 5.0][i % 3], size=nS).astype(np.float32)


def sharpen(pol, factor):
    """scale the last action layer so that the policy's law is far from uniform."""
    import equinox as eqx

    ad = pol.action_head.action_dist
    name = "mapping" if getattr(ad, "mapping", None) is not None else "mappings"
    return eqx.tree_at(lambda p: (getattr(p.action_head.action_dist, name).weight,
                                  getattr(p.action_head.action_dist, name).bias), pol,
                       replace_fn=lambda w: w * factor)


def ac_leg(ctx, kind, specs, build_policy=None):
    """End-to-end through MLPActorCriticPolicy for one action-space kind.
    specs: list of nvec (Discrete: (n,), MultiBinary: (2,)*k, MultiDiscrete: nvec)."""
    import equinox as eqx
    import jax
    from jax import numpy as jnp
    from jax import random as jr
    from lerax.policy import MLPActorCriticPolicy
    from vlib.common import digest

    pre = f"ac-{kind}"
    N, N2 = 512, 128
    build_policy = build_policy or MLPActorCriticPolicy
    kc = 0
    for si, nvec in enumerate(specs):
        nvec = tuple(int(n) for n in nvec)
        if kind == "discrete":
            masks = all_masks(nvec[0]) if nvec[0] <= 6 else None
            mlen = nvec[0]
            acts = np.arange(nvec[0], dtype=np.int32)
            mk_ref = ref_cat
        elif kind == "multibinary":
            k = len(nvec)
            masks = all_masks(k, allow_empty=True)
            mlen = k
            acts = np.array(list(itertools.product([0, 1], repeat=k)), dtype=np.int32)
            mk_ref = ref_bits
        else:
            masks = component_mask_combos(nvec) if int(np.prod([2 ** n - 1 for n in nvec])) <= 200 else None
            mlen = int(sum(nvec))
            acts = np.array(list(itertools.product(*[range(n) for n in nvec])), dtype=np.int32)
            mk_ref = lambda lg, m, nv=nvec: ref_multi(lg, nv, m)  # noqa: E731
        if masks is None:  # too many for enumeration: random non-empty (component) masks
            masks = []
            for mi in range(ctx.n(40, 200)):
                m = ctx.rng.random(mlen) < 0.5
                if mlen > 128 and mi % 2 == 0:
                    m[: int(ctx.rng.integers(100, 128))] = False  # only indices beyond the int8 range stay allowed
                o = 0
                for n in (nvec if kind == "multidiscrete" else (mlen,)):
                    if not m[o:o + n].any():
                        m[o + ctx.rng.integers(n)] = True
                    o += n
                masks.append(m)
        else:
            ctx.monitor(f"{pre}_spaces_exhaustive_in_masks")
        env, _ = small_env(ctx.rng, kind, nvec)
        nS = env.nS
        for variant in range(ctx.n(2, 5)):
            act = ["relu", "tanh"][variant % 2]
            depth = [2, 0, 1, 3, 2][variant % 5]  # action_depth=0 (no hidden layer in the action head) is in both tiers
            try:
                pol = build_policy(env, key=ctx.key(10_000 * si + variant), feature_size=6, feature_width=12,
                                   feature_depth=1, value_width=8, value_depth=1, action_width=12,
                                   action_depth=depth, activation={"relu": jax.nn.relu, "tanh": jnp.tanh}[act])
            except Exception as e:  # a documented action space the policy cannot be built for
                ctx.monitor(f"{pre}_construction_failures")
                ctx.violation(f"actor-critic-{kind}-not-constructible",
                              {"action_space": str(env.action_space), "error": f"{type(e).__name__}: {e}"[:300]})
                break
            ctx.monitor(f"{pre}_policies_built")
            if variant % 2 == 1:
                pol = sharpen(pol, float(ctx.rng.choice([5.0, 20.0])))
            jacts = jnp.asarray(acts)

            def f(pol, obs, mask, key):
                k1, k2 = jr.split(key)
                a0 = pol(None, obs, action_mask=mask)[1]
                a1 = pol(None, obs, key=None, action_mask=mask)[1]
                s = jax.vmap(lambda kk: pol(None, obs, key=kk, action_mask=mask)[1])(jr.split(k1, N))
                _, a2, _, lp2 = jax.vmap(lambda kk: pol.action_and_value(None, obs, key=kk, action_mask=mask))(
                    jr.split(k2, N2))
                _, _, lp3, ent = jax.vmap(lambda a: pol.evaluate_action(None, obs, a, action_mask=mask))(jacts)
                _, _, lp4, _ = jax.vmap(lambda a: pol.evaluate_action(None, obs, a, action_mask=mask))(a2)
                return dict(modes=[a0, a1], samples=s, slp_s=a2, slp_lp=lp2, logp_all=lp3, eval_lp=lp4, ent=ent)

            def fcall(pol, obs, mask):
                return pol(None, obs, action_mask=mask)[1]

            n_obs = ctx.n(2, 4)
            cases = [(gen_obs(ctx.rng, nS, oi + variant), m) for oi in range(n_obs) for m in masks]
            O = jnp.asarray(np.stack([c[0] for c in cases]))
            M = jnp.asarray(np.stack([c[1] for c in cases]))
            kc += 1
            keys = jr.split(ctx.key(500_000 + 1000 * si + kc), len(cases))
            O0 = jnp.asarray(np.stack([cases[i * len(masks)][0] for i in range(n_obs)]))
            f0 = lambda p, o, k: f(p, o, None, k)  # noqa: E731  (the same with no mask at all, one per observation)
            jit_ok = True
            try:
                outs = _np_out(eqx.filter_jit(eqx.filter_vmap(f, in_axes=(None, 0, 0, 0)))(pol, O, M, keys))
                outs0 = _np_out(eqx.filter_jit(eqx.filter_vmap(f0, in_axes=(None, 0, 0)))(pol, O0, keys[:n_obs]))
                ctx.monitor(f"{pre}_jit_batches_ok")
            except Exception as e:
                jit_ok = False
                ctx.monitor(f"{pre}_jit_batches_raised")
                ctx.violation(_raise_key(e, f"{pre}-call-raises-under-jit"), {"nvec": list(nvec), "error": _short(e)})
                try:  # judge the values without jit so that this defect does not hide others
                    outs = _np_out(eqx.filter_vmap(f, in_axes=(None, 0, 0, 0))(pol, O, M, keys))
                    outs0 = _np_out(eqx.filter_vmap(f0, in_axes=(None, 0, 0))(pol, O0, keys[:n_obs]))
                except Exception as e2:
                    ctx.violation(f"{pre}-call-with-mask-raises", {"nvec": list(nvec), "error": _short(e2)})
                    continue
            jcall = eqx.filter_jit(fcall) if jit_ok else fcall
            estep = max(1, len(cases) // ctx.n(10, 30))
            for i, (o, m) in enumerate(cases):
                lg = np_ac_params(pol, o, act)
                ref = mk_ref(lg, m)
                if ref is None:
                    ctx.monitor("excluded_no_allowed_mass")
                    continue
                out = jax.tree.map(lambda x: x[i], outs)
                ent = out.pop("ent")
                ctx.monitor("entropy_finite" if np.all(np.isfinite(ent)) else "entropy_not_finite_under_mask")
                if i % estep == 0:  # separate jit call and two eager calls must return the same greedy action
                    out["modes_x"] = {"jit": [np.asarray(jcall(pol, jnp.asarray(o), jnp.asarray(m))) for _ in range(2)],
                                      "eager": [np.asarray(fcall(pol, jnp.asarray(o), jnp.asarray(m))),
                                                np.asarray(fcall(pol, jnp.asarray(o), m))]}
                    ctx.monitor("keyless_repeat_eager_jit_compared")
                tol = Tol(ref.L, fwd=1e-4 * (1 + ref.L), ncomp=len(ref.nvec))
                if kind == "multibinary":
                    tol.tie = max(tol.tie, 4e-4)
                judge(ctx, pre, ref, out, tol,
                      {"nvec": list(nvec), "variant": variant, "mask": bits(m), "h": digest(o, m)},
                      f"{pre}/{'sharp' if variant % 2 else 'init'}/{'restricting' if ref.restricts else 'all-allowed'}",
                      {"obs": o, "ref_params": lg})
            full = np.ones(mlen, dtype=bool)
            for i in range(n_obs):
                o = cases[i * len(masks)][0]
                lg = np_ac_params(pol, o, act)
                ref = mk_ref(lg, full)
                out = jax.tree.map(lambda x: x[i], outs0)
                out.pop("ent")
                tol = Tol(ref.L, fwd=1e-4 * (1 + ref.L), ncomp=len(ref.nvec))
                if kind == "multibinary":
                    tol.tie = max(tol.tie, 4e-4)
                unique = all(np.sum(lp >= lp.max() - tol.tie) == 1 for _, lp in ref.comps)
                judge(ctx, pre, ref, out, tol, {"nvec": list(nvec), "variant": variant, "mask": "none", "h": digest(o)},
                      f"{pre}/no-mask", {"obs": o, "ref_params": lg}, nontrivial=unique)
    return kc


def u_ac_discrete(ctx):
    # (200,): more classes than int8 holds; random masks, many of which allow only high indices
    specs = [(2,), (3,), (4,), (5,), (200,)] + ([] if ctx.quick else [(1,), (6,), (11,), (129,)])
    ac_leg(ctx, "discrete", specs)
    ctx.notes["exhaustive_subspaces"] = ["MLPActorCriticPolicy/Discrete(n): every non-empty mask for n <= "
                                         f"{5 if ctx.quick else 6} per (policy, observation)"]
    ctx.require("ac-discrete_policies_built", 4)
    ctx.require("samples_under_restricting_mask", 10000)
    ctx.require("mode_unique_argmax_decided", 50)
    ctx.require("keyless_repeat_eager_jit_compared", 10)


def u_ac_multibinary(ctx):
    specs = [(2,) * k for k in ([1, 2, 3, 4] if ctx.quick else [1, 2, 3, 4, 5])]
    ac_leg(ctx, "multibinary", specs)
    ctx.notes["exhaustive_subspaces"] = ["MLPActorCriticPolicy/MultiBinary(k): every bit mask for k <= "
                                         f"{4 if ctx.quick else 5} per (policy, observation)"]
    ctx.require("ac-multibinary_policies_built", 4)
    ctx.require("samples_under_restricting_mask", 10000)
    ctx.require("mode_unique_argmax_decided", 50)


def u_ac_multidiscrete(ctx):
    specs = [(2, 2), (3, 2), (2, 3)] + ([(3, 3, 2)] if ctx.quick else [(3, 3, 2), (4, 3), (2, 2, 2), (5, 4, 3)])
    ac_leg(ctx, "multidiscrete", specs)
    ctx.notes["exhaustive_subspaces"] = ["MLPActorCriticPolicy/MultiDiscrete(nvec): every combination of non-empty "
                                         "component masks for nvec with <= 200 combinations, per (policy, observation)"]
    built = ctx.monitors.get("ac-multidiscrete_policies_built", 0)
    failed = ctx.monitors.get("ac-multidiscrete_construction_failures", 0)
    ctx.notes["policies_built"], ctx.notes["construction_failures"] = built, failed
    if built == 0 and failed == 0:
        ctx.inconc("multi-discrete leg neither built a policy nor observed a construction failure")
    if built:
        ctx.require("samples_under_restricting_mask", 10000)
        ctx.require("mode_unique_argmax_decided", 50)
    else:
        # the leg's deciding observation is the construction failure itself; record it as executions judged
        for nvec in specs:
            ctx.case({"nvec": list(nvec), "construction": "failed"}, nontrivial=True, cls="ac-multidiscrete/not-constructible")


# --------------------------------------------------------------------------- Q policies
EPSILONS = [0.0, 0.1, 0.5, 1.0]


def judge_q(ctx, pre, q, mask, eps, out, desc, cls, wit, fwd):
    """q: reference Q-values (float64), mask: bool array or None, fwd: relative error allowed for the float32
    forward pass that produced the real Q-values."""
    from scipy.stats import binom

    n = len(q)
    m = np.ones(n, dtype=bool) if mask is None else np.asarray(mask, dtype=bool)
    ref = ref_cat(q, m)
    tol = Tol(ref.L, fwd=fwd * (1 + ref.L))
    lp = ref.comps[0][1]
    unique = int(np.sum(lp >= lp.max() - tol.tie)) == 1
    greedy = int(np.argmax(lp))
    samples = out.pop("draws")
    judge(ctx, pre, ref, {k: v for k, v in out.items() if k in ("modes", "modes_x")}, tol, desc, cls, wit,
          nontrivial=(ref.restricts or mask is None) and unique)
    s = np.asarray(samples).astype(np.int64).ravel()
    N = len(s)
    ctx.monitor("q_draws_checked", N)
    if ref.restricts:
        ctx.monitor("q_draws_under_restricting_mask", N)
    if np.any((s < 0) | (s >= n)):
        ctx.violation(f"{pre}-sample-out-of-range", {**desc, **wit, "got": s[(s < 0) | (s >= n)][:4]})
        return
    if np.any(~m[s]):
        ctx.violation(f"{pre}-sample-masked", {**desc, **wit, "epsilon": eps, "n_masked": int((~m[s]).sum()), "n_samples": N,
                                               "got": s[~m[s]][:4]})
        return
    if not unique:
        ctx.monitor("q_greedy_ambiguous_skipped")
        return
    k = int(np.sum(s != greedy))
    ctx.monitor("q_epsilon_bound_evaluations")
    st = ctx.notes.setdefault("nongreedy_fraction_max_by_epsilon", {})
    st[str(eps)] = max(st.get(str(eps), 0.0), k / N)
    if eps <= 0.0:
        ctx.monitor("q_epsilon0_draws", N)
        if k:
            ctx.violation(f"{pre}-epsilon0-not-greedy", {**desc, **wit, "nongreedy": k, "n_samples": N, "greedy": greedy})
    elif eps < 1.0:
        tail = float(binom.sf(k - 1, N, eps))
        if tail < ALPHA:
            ctx.violation(f"{pre}-nongreedy-exceeds-epsilon", {**desc, **wit, "epsilon": eps, "nongreedy": k, "n_samples": N,
                                                                "tail_p": tail, "greedy": greedy})
    if k and ref.restricts:
        ctx.monitor("q_nongreedy_draws_under_restricting_mask", k)


def q_leg(ctx, pre, make_policy, ref_q, ns):
    import equinox as eqx
    import jax
    from jax import numpy as jnp
    from jax import random as jr
    from vlib.common import digest

    N = 4096
    kc = 0
    for si, n in enumerate(ns):
        masks = all_masks(n) if n <= 5 else None
        if masks is None:
            masks = []
            for _ in range(ctx.n(24, 120)):
                m = ctx.rng.random(n) < 0.5
                if not m.any():
                    m[ctx.rng.integers(n)] = True
                masks.append(m)
        else:
            ctx.monitor(f"{pre}_spaces_exhaustive_in_masks")
        env, _ = small_env(ctx.rng, "discrete", (n,))
        for ei, eps in enumerate(EPSILONS):
            for variant in range(ctx.n(1, 3)):
                pol, fwd = make_policy(env, eps, ctx.key(7000 + 100 * si + 10 * ei + variant), variant + si)

                def f(pol, obs, mask, key):
                    a0 = pol(None, obs, action_mask=mask)[1]
                    a1 = pol(None, obs, action_mask=mask, key=None)[1]
                    s = jax.vmap(lambda kk: pol(None, obs, key=kk, action_mask=mask)[1])(jr.split(key, N))
                    return dict(modes=[a0, a1], draws=s)

                n_obs = ctx.n(2, 3)
                cases = [(gen_obs(ctx.rng, env.nS, oi + variant), m) for oi in range(n_obs) for m in masks]
                O = jnp.asarray(np.stack([c[0] for c in cases]))
                M = jnp.asarray(np.stack([c[1] for c in cases]))
                kc += 1
                keys = jr.split(ctx.key(900_000 + kc), len(cases))
                outs = _np_out(eqx.filter_jit(eqx.filter_vmap(f, in_axes=(None, 0, 0, 0)))(pol, O, M, keys))
                with_nomask = (not ctx.quick) or (si + ei) % 2 == 0
                if with_nomask:
                    O0 = jnp.asarray(np.stack([cases[i * len(masks)][0] for i in range(n_obs)]))
                    outs0 = _np_out(eqx.filter_jit(eqx.filter_vmap(lambda p, o, k: f(p, o, None, k), in_axes=(None, 0, 0)))(
                        pol, O0, keys[:n_obs]))
                estep = max(1, len(cases) // ctx.n(6, 16))
                for i, (o, m) in enumerate(cases):
                    q = ref_q(pol, o)
                    out = jax.tree.map(lambda x: x[i], outs)
                    if i % estep == 0:  # eager, concrete mask, with and without key
                        out["modes_x"] = {"eager": [np.asarray(pol(None, jnp.asarray(o), action_mask=jnp.asarray(m))[1]),
                                                    np.asarray(pol(None, jnp.asarray(o), action_mask=m)[1])]}
                        if i % (estep * ctx.n(6, 2)) == 0:  # eager lax.cond recompiles on every call: keep these few
                            ek = np.asarray(pol(None, jnp.asarray(o), action_mask=jnp.asarray(m), key=keys[i])[1])
                            ctx.monitor("q_eager_keyed_calls")
                            if not m[int(ek)]:
                                ctx.violation(f"{pre}-sample-masked", {"mode": "eager", "epsilon": eps, "mask": bits(m), "got": ek})
                    judge_q(ctx, pre, q, m, eps, out,
                            {"n": n, "epsilon": eps, "variant": variant, "mask": bits(m), "h": digest(o, m)},
                            f"{pre}/eps{eps}/{'restricting' if not m.all() else 'all-allowed'}", {"obs": o, "ref_q": q}, fwd)
                for i in range(n_obs if with_nomask else 0):
                    o = cases[i * len(masks)][0]
                    q = ref_q(pol, o)
                    judge_q(ctx, pre, q, None, eps, jax.tree.map(lambda x: x[i], outs0),
                            {"n": n, "epsilon": eps, "variant": variant, "mask": "none", "h": digest(o)},
                            f"{pre}/eps{eps}/no-mask", {"obs": o, "ref_q": q}, fwd)


def u_q_mlp(ctx):
    from lerax.policy import MLPQPolicy

    def make(env, eps, key, v):
        import equinox as eqx

        pol = MLPQPolicy(env, epsilon=eps, width_size=12, depth=[2, 1, 3][v % 3], key=key)
        if v % 2 == 1:  # spread the Q-values so that the softmax used in the exploration branch is peaked
            last = pol.q_network.layers[-1]
            pol = eqx.tree_at(lambda p: (p.q_network.layers[-1].weight, p.q_network.layers[-1].bias), pol,
                              (last.weight * 8.0, last.bias * 8.0))
        return pol, 1e-4  # relative error allowed for the float32 forward pass

    def ref_q(pol, o):
        return np_mlp(pol.q_network, f64(o).ravel(), "relu")

    q_leg(ctx, "q-mlp", make, ref_q, [2, 3, 4, 5] + ([] if ctx.quick else [9]))
    ctx.notes["exhaustive_subspaces"] = ["MLPQPolicy/Discrete(n): every non-empty mask for n <= 5 x epsilon in "
                                         f"{EPSILONS} per (policy, observation)"]
    ctx.require("q_draws_under_restricting_mask", 100000)
    ctx.require("q_epsilon_bound_evaluations", 100)
    ctx.require("q_epsilon0_draws", 10000)
    ctx.require("q_nongreedy_draws_under_restricting_mask", 1000)
    ctx.require("mode_unique_argmax_decided", 50)


def u_q_table(ctx):
    """AbstractQPolicy.__call__ through a harness-defined linear-table policy with hostile Q-values
    (tiny / huge scales, exact ties between actions)."""
    from typing import ClassVar

    import jax
    from jax import numpy as jnp
    from lerax.policy import AbstractQPolicy
    from lerax.space import Discrete

    class TableQ(AbstractQPolicy):
        name: ClassVar[str] = "TableQ"
        action_space: Discrete
        observation_space: object
        epsilon: float
        W: jax.Array

        def __init__(self, env, W, epsilon):
            self.action_space, self.observation_space = env.action_space, env.observation_space
            self.W, self.epsilon = jnp.asarray(W, dtype=jnp.float32), float(epsilon)

        def reset(self, *, key):
            return None

        def q_values(self, state, observation):
            return state, self.W @ jnp.asarray(observation, dtype=jnp.float32)

    def make(env, eps, key, v):
        n, nS = env.action_space.n, env.nS
        W = ctx.rng.normal(0, [0.3, 3.0, 100.0, 1.0][v % 4], size=(n, nS))
        if v % 4 == 3:  # exact ties between actions
            W[ctx.rng.integers(n)] = W[ctx.rng.integers(n)]
        return TableQ(env, np.round(W, 3), eps), 1e-5

    def ref_q(pol, o):
        return f64(np.asarray(pol.W)) @ f64(o)

    # q_leg passes state None; TableQ.q_values hands the state through untouched
    q_leg(ctx, "q-table", make, ref_q, [2, 3, 4, 5] + ([] if ctx.quick else [7]))
    ctx.notes["exhaustive_subspaces"] = ["AbstractQPolicy (table)/Discrete(n): every non-empty mask for n <= 5 x "
                                         f"epsilon in {EPSILONS} per (policy, observation)"]
    ctx.require("q_draws_under_restricting_mask", 100000)
    ctx.require("q_epsilon_bound_evaluations", 100)
    ctx.require("q_epsilon0_draws", 10000)
    ctx.require("q_nongreedy_draws_under_restricting_mask", 1000)


# --------------------------------------------------------------------------- continuous policies (key-less = greedy)
def u_continuous(ctx):
    import equinox as eqx
    import jax
    from jax import numpy as jnp
    from jax import random as jr
    from lerax.policy import MLPActorCriticPolicy, MLPSACPolicy
    from scipy.stats import kstest, norm
    from vlib.common import digest
    from vlib.mdp import FiniteMDP, random_tables

    N = 2048

    def box_env(d, low, high):
        t = random_tables(ctx.rng, 4, 3)
        return FiniteMDP(t["P"], t["R"], t["term"], t["starts"], kind="box", box_dim=d, low=low, high=high)

    def f(pol, obs, key, sac):
        k1, k2 = jr.split(key)
        a0 = pol(None, obs)[1]
        a1 = pol(None, obs, key=None)[1]
        s = jax.vmap(lambda kk: pol(None, obs, key=kk)[1])(jr.split(k1, N))
        if sac:
            _, a2, lp2 = jax.vmap(lambda kk: pol.action_and_log_prob(None, obs, key=kk))(jr.split(k2, 256))
        else:
            _, a2, _, lp2 = jax.vmap(lambda kk: pol.action_and_value(None, obs, key=kk))(jr.split(k2, 256))
        return a0, a1, s, a2, lp2

    cfgs = [(1, -1.0, 1.0), (2, -2.0, 0.5), (3, 0.0, 4.0)]
    for ci, (d, low, high) in enumerate(cfgs):
        env = box_env(d, low, high)
        for family in ("sac", "ac"):
            for variant in range(ctx.n(2, 6)):
                key = ctx.key(100 * ci + 10 * variant + (family == "sac"))
                if family == "sac":
                    pol = MLPSACPolicy(env, feature_size=8, width_size=12, depth=1 + variant % 2, key=key)
                else:
                    pol = MLPActorCriticPolicy(env, key=key, feature_size=6, feature_width=12, feature_depth=1,
                                               value_width=8, value_depth=1, action_width=12, action_depth=2,
                                               log_std_init=float([-1.0, 0.0, 0.5][variant % 3]))
                n_obs = ctx.n(6, 12)
                O = np.stack([gen_obs(ctx.rng, env.nS, i + 1) for i in range(n_obs)])
                outs = _np_out(eqx.filter_jit(eqx.filter_vmap(lambda p, o, k: f(p, o, k, family == "sac"),
                                                              in_axes=(None, 0, 0)))(
                    pol, jnp.asarray(O), jr.split(ctx.key(5000 + 100 * ci + 10 * variant + (family == "sac")), n_obs)))
                for i in range(n_obs):
                    o = O[i]
                    a0, a1, s, a2, lp2 = [x[i] for x in outs]
                    eager = [np.asarray(pol(None, jnp.asarray(o))[1]) for _ in range(2)] if i < 2 else []
                    if family == "sac":
                        feat = np_mlp(pol.encoder, f64(o), "relu")
                        mu = np_linear(pol.mean_head, feat).reshape(-1)
                        ls = np.tanh(np_linear(pol.log_std_head, feat).reshape(-1))
                        sd = np.exp(-5 + 0.5 * 7 * (ls + 1))
                        width = high - low
                        greedy = low + width / (1 + np.exp(-mu))
                        gtol = 2e-5 * width * (1 + np.abs(mu))
                    else:
                        mu = np_ac_params(pol, o, "relu").reshape(-1)
                        sd = np.exp(f64(pol.action_head.action_dist.log_std)).reshape(-1) * np.ones(d)
                        greedy = mu
                        gtol = 1e-4 * (1 + np.abs(mu))
                    desc = {"family": family, "d": d, "low": low, "high": high, "variant": variant, "h": digest(o)}
                    ctx.case(desc, nontrivial=True, cls=f"continuous/{family}/d{d}")
                    ctx.monitor("continuous_keyless_checked")
                    calls = [np.asarray(a0).reshape(-1), np.asarray(a1).reshape(-1)]
                    eager = [e.reshape(-1) for e in eager]
                    # repeated calls of one execution mode are bit-identical; eager vs jit may differ by float32 rounding
                    if not np.array_equal(calls[0], calls[1]) or (eager and not np.array_equal(eager[0], eager[1])):
                        ctx.violation(f"{family}-keyless-not-deterministic", {**desc, "got": calls + eager})
                    if eager and np.any(~(np.abs(f64(eager[0]) - f64(calls[0])) <= gtol)):
                        ctx.violation(f"{family}-keyless-differs-between-executions", {**desc, "got": calls + eager})
                    if np.any(~(np.abs(f64(calls[0]) - greedy) <= gtol)):
                        ctx.violation(f"{family}-keyless-not-greedy", {**desc, "got": calls[0], "want": greedy, "obs": o})
                    # keyed calls: samples vary, follow the law the policy reports, and the log-prob is that law's
                    S = f64(s).reshape(N, d)
                    if np.unique(S[:, 0]).size < N // 2:
                        ctx.violation(f"{family}-keyed-call-not-sampling", {**desc, "unique": int(np.unique(S[:, 0]).size)})
                    A2 = f64(a2).reshape(-1, d)
                    if family == "sac":
                        if np.any((S < low) | (S > high)) or np.any((A2 < low) | (A2 > high)):
                            ctx.violation("sac-sample-outside-bounds", {**desc, "min": S.min(), "max": S.max()})
                        U = np.clip((S - low) / width, 1e-300, 1.0)
                        with np.errstate(divide="ignore", invalid="ignore"):
                            X = np.log(U) - np.log1p(-U)
                        u2 = (A2 - low) / width
                        inner = np.all((u2 > 1e-3) & (u2 < 1 - 1e-3), axis=1)
                        with np.errstate(divide="ignore", invalid="ignore"):
                            x2 = np.log(u2) - np.log1p(-u2)
                            want = np.sum(norm.logpdf(x2, mu, sd) - np.log(width * u2 * (1 - u2)), axis=1)
                            cond = np.sum(np.abs(x2 - mu) / sd ** 2 / (u2 * (1 - u2)), axis=1)
                        ltol = 1e-3 + 1e-4 * np.abs(want) + 16 * EPS32 * cond
                    else:
                        X = S
                        inner = np.ones(len(A2), dtype=bool)
                        want = np.sum(norm.logpdf(A2, mu, sd), axis=1)
                        ltol = 1e-3 + 1e-4 * np.abs(want) + 16 * EPS32 * np.sum(np.abs(A2 - mu) / sd ** 2 * (1 + np.abs(A2)), axis=1)
                    ctx.monitor("continuous_logprobs_checked", int(inner.sum()))
                    ctx.monitor("continuous_logprobs_saturated_skipped", int((~inner).sum()))
                    far = ~(np.abs(f64(lp2) - want) <= ltol) & inner
                    if np.any(far):
                        j = int(np.argmax(far))
                        ctx.violation(f"{family}-reported-logprob-mismatch", {**desc, "action": A2[j], "got": f64(lp2)[j],
                                                                              "want": want[j], "mu": mu, "sd": sd})
                    for j in range(d):
                        xs = X[:, j]
                        xs = xs[np.isfinite(xs)]
                        pv = kstest(xs, norm(loc=mu[j], scale=sd[j]).cdf).pvalue
                        ctx.monitor("continuous_ks_tests")
                        if pv < ALPHA and len(xs) > N * 0.99:
                            ctx.violation(f"{family}-keyed-samples-not-from-reported-law",
                                          {**desc, "dim": j, "ks_p": float(pv), "mu": mu[j], "sd": sd[j],
                                           "sample_mean": float(xs.mean()), "sample_sd": float(xs.std())})
    ctx.require("continuous_keyless_checked", 30)
    ctx.require("continuous_logprobs_checked", 2000)
    ctx.require("continuous_ks_tests", 30)


# --------------------------------------------------------------------------- collection on masked environments
def u_rollout(ctx):
    import equinox as eqx
    from jax import numpy as jnp
    from lerax.algorithm import A2C, DQN, PPO
    from lerax.policy import MLPActorCriticPolicy, MLPQPolicy
    from vlib.common import digest
    from vlib.mdp import FiniteMDP, random_tables

    def masked_env(kind, nvec, i):
        nA = int(np.prod(nvec))
        nS = int(ctx.rng.integers(4, 8))
        t = random_tables(ctx.rng, nS, nA, p_term=0.2)
        if kind == "discrete":
            mlen, groups = nA, [nA]
        elif kind == "multibinary":
            mlen, groups = len(nvec), []
        else:
            mlen, groups = int(sum(nvec)), list(nvec)
        masks = ctx.rng.random((nS, mlen)) < 0.5
        for s in range(nS):
            o = 0
            for n in groups:
                if not masks[s, o:o + n].any():
                    masks[s, o + ctx.rng.integers(n)] = True
                o += n
        kw = {} if kind == "discrete" else {"nvec": tuple(nvec)}
        return FiniteMDP(t["P"], t["R"], t["term"], t["starts"], trunc=t["trunc"], masks=masks, kind=kind, **kw), masks

    T = ctx.n(48, 128)
    legs = [("discrete", (4,)), ("multibinary", (2, 2, 2)), ("discrete", (3,)), ("multidiscrete", (3, 2))]
    for i in range(ctx.n(8, 32)):
        kind, nvec = legs[i % len(legs)]
        env, masks = masked_env(kind, nvec, i)
        try:
            pol = MLPActorCriticPolicy(env, key=ctx.key(i), feature_size=6, feature_width=12, feature_depth=1,
                                       value_width=8, value_depth=1, action_width=12, action_depth=2)
        except Exception:
            ctx.monitor("rollout_policy_not_constructible_skipped")  # reported by unit ac_multidiscrete
            continue
        pol = sharpen(pol, 4.0)
        algo = (PPO(num_envs=1, num_steps=T, num_batches=1, num_epochs=1) if i % 2 == 0
                else A2C(num_envs=1, num_steps=T))
        cb = algo.consolidate_callbacks(None)
        st = algo.reset(env, pol, key=ctx.key(1000 + i), callback=cb)
        _, buf = eqx.filter_jit(algo.collect_rollout)(env, pol, st.step_state, cb, ctx.key(2000 + i))
        obs, acts = np.asarray(buf.observations), np.asarray(buf.actions)
        got_masks = None if buf.action_masks is None else np.asarray(buf.action_masks)
        lps = f64(buf.log_probs)
        S = obs.argmax(axis=1)
        desc = {"algo": type(algo).__name__, "kind": kind, "nvec": list(nvec), "T": T, "h": digest(obs, acts)}
        n_masked, n_lp_bad, decisive = 0, 0, 0
        for t in range(T):
            m = masks[S[t]]
            lg = np_ac_params(pol, obs[t], "relu")
            ref = {"discrete": ref_cat, "multibinary": ref_bits}.get(kind, lambda a, b: ref_multi(a, nvec, b))(lg, m)
            full = {"discrete": ref_cat, "multibinary": ref_bits}.get(kind, lambda a, b: ref_multi(a, nvec, b))(
                lg, np.ones_like(m))
            if float(full.p[~ref.allowed].sum()) > 0.2:
                decisive += 1
            j = int(ref.index(acts[t])[0])
            if j < 0 or not ref.allowed[j]:
                n_masked += 1
                wit = {"t": t, "state": int(S[t]), "mask": bits(m), "action": acts[t]}
            elif not abs(lps[t] - ref.logp[j]) <= 1e-3 + 1e-4 * abs(ref.logp[j]):
                n_lp_bad += 1
                wit2 = {"t": t, "state": int(S[t]), "mask": bits(m), "action": acts[t], "got": lps[t], "want": ref.logp[j]}
        ctx.case(desc, nontrivial=decisive > 0, cls=f"rollout/on-policy/{kind}")
        ctx.monitor("on_policy_steps_checked", T)
        ctx.monitor("on_policy_steps_where_masked_mass_exceeds_0.2", decisive)
        if got_masks is None or not np.array_equal(got_masks.reshape(T, -1), masks[S]):
            ctx.violation("on-policy-rollout-does-not-record-env-mask", {**desc, "got": None if got_masks is None else got_masks[:4]})
        if n_masked:
            ctx.violation("on-policy-rollout-chose-masked-action", {**desc, "n_masked": n_masked, **wit})
        if n_lp_bad:
            ctx.violation("on-policy-rollout-logprob-not-of-masked-law", {**desc, "n_bad": n_lp_bad, **wit2})
    # off-policy: DQN on a masked Discrete environment
    for i in range(ctx.n(4, 16)):
        env, masks = masked_env("discrete", (int(ctx.rng.integers(3, 6)),), i)
        eps = [0.0, 0.3, 1.0, 0.1][i % 4]
        pol = MLPQPolicy(env, epsilon=eps, width_size=12, depth=1, key=ctx.key(3000 + i))
        algo = DQN(buffer_size=T, learning_starts=T, num_envs=1, num_steps=4, batch_size=4)
        cb = algo.consolidate_callbacks(None)
        st = eqx.filter_jit(lambda e, p, k: algo.reset(e, p, key=k, callback=cb))(env, pol, ctx.key(4000 + i))
        rb = st.step_state.buffer
        n_stored = int(min(int(rb.position), T))
        obs, acts = np.asarray(rb.observations)[:n_stored], np.asarray(rb.actions)[:n_stored].astype(np.int64)
        S = obs.argmax(axis=1)
        allowed = masks[S, acts]
        exp_masked = 0
        for t in range(n_stored):
            q = np_mlp(pol.q_network, f64(obs[t]), "relu")
            if not masks[S[t]][int(np.argmax(q))]:
                exp_masked += 1
        desc = {"algo": "DQN", "epsilon": eps, "n": int(env.action_space.n), "T": n_stored, "h": digest(obs, acts)}
        ctx.case(desc, nontrivial=exp_masked > 0 or eps > 0, cls="rollout/off-policy/discrete")
        ctx.monitor("off_policy_steps_checked", n_stored)
        ctx.monitor("off_policy_steps_where_unmasked_greedy_is_masked", exp_masked)
        if not allowed.all():
            # Observed, not judged: the off-policy collector never hands the environment's mask to the
            # Q policy (off_policy.py calls policy(state, obs, key=...) without action_mask). C16 is about
            # policies *called with* a mask, and no given property covers masks in off-policy collection, so
            # demanding it here would ask more than the property states. Recorded in the evidence notes.
            ctx.monitor("off_policy_masked_actions_observed_not_judged", int((~allowed).sum()))
            ctx.notes["off_policy_collector_ignores_env_mask_witness"] = {
                **desc, "state": int(S[int(np.argmin(allowed))]), "mask": bits(masks[S[int(np.argmin(allowed))]]),
                "action": int(acts[int(np.argmin(allowed))])}
    ctx.require("on_policy_steps_checked", 200)
    ctx.require("on_policy_steps_where_masked_mass_exceeds_0.2", 20)
    ctx.require("off_policy_steps_checked", 100)


def run_unit(name, ctx):
    {"categorical": u_categorical, "multicategorical": u_multicategorical, "bernoulli": u_bernoulli,
     "ac_discrete": u_ac_discrete, "ac_multibinary": u_ac_multibinary, "ac_multidiscrete": u_ac_multidiscrete,
     "q_mlp": u_q_mlp, "q_table": u_q_table, "continuous": u_continuous, "rollout": u_rollout}[name](ctx)
