"""C17, MuJoCo half: the 11 lerax MuJoCo environments against Gymnasium 1.3.0 "<Name>-v5".

Helper for checks/c17.py, which delegates unit names starting with "mj-" to

    mujoco_units(tier)      -> [{"name": "mj-<Env>", "timeout": seconds}, ...]
    run_mujoco_unit(name, ctx)

One unit per environment (JIT compile of one MuJoCo transition dominates).  Monitors, all with the
oracle "equals Gymnasium v5":

 M1 model identity   every numeric array of env.mujoco_model == Gymnasium's model (exact), opt.timestep,
                     frame_skip, dt, action/observation space shape and bounds.
 M2 formula          Gymnasium env whose `do_simulation` is a stub that loads lerax's post-step mjx.Data
                     into its MjData; Gymnasium's unmodified step()/_get_obs() then compute obs, reward,
                     terminated, info from *lerax's* data and must equal what lerax computes (1e-4).
                     "before" quantities: lerax's own pre-step data (Gymnasium's are one sub-step stale
                     too), except on the first step of an episode where additionally the true kinematics
                     (mj_resetData + set_state = reset) are the reference.
 M2r formula, reverse lerax's observation/reward/terminal/transition_info evaluated on a state that carries the
                     *C engine's* pre/post-step arrays must equal Gymnasium's real step outputs.  This is
                     what keeps a data defect (cfrc_ext identically 0, kinematics missing at reset) from
                     masking a formula defect in a term that reads the defective array.
 M3 data fidelity    real Gymnasium step from the same (qpos, qvel, action) vs lerax transition: contact-free
                     steps agree to 1e-3 on every observation entry; contact steps are only compared
                     structurally (cfrc_ext) and counted as inconclusive-by-contact.
 R  reset            observation(initial(key)) vs Gymnasium _get_obs() after reset to the same qpos/qvel;
                     reset support (noise ranges, fixed entries) over many keys.

Violation keys are `<mechanism>-<Env>`; one mechanism per key:
  mj-initial-without-forward-kinematics   initial() state lacks the derived arrays Gymnasium has after reset
  mj-observation-formula / mj-info-<k> / mj-reward-formula / mj-termination-formula
                                          lerax's formula differs from Gymnasium's on identical data
  mj-cfrc-ext-never-computed              contact forces Gymnasium reads are identically zero in lerax
  mj-transition-data                      contact-free one-step dynamics differ by more than 1e-3
  mj-model-array / mj-static-<what>       model or static attribute differs
  mj-reset-distribution                   reset sample outside Gymnasium's reset support
  mj-constructor-option-raises            a documented option cannot be constructed / run
  mj-reward-components-not-reported       a Gymnasium v5 reward component is absent from transition_info
  mj-transition-derived-data              contact-free step: qpos/qvel agree but an array Gymnasium's obs reads differs
"""

from __future__ import annotations

import dataclasses

import numpy as np

ENVS = {
    "Ant": "Ant-v5", "HalfCheetah": "HalfCheetah-v5", "Hopper": "Hopper-v5", "Humanoid": "Humanoid-v5",
    "HumanoidStandup": "HumanoidStandup-v5", "InvertedDoublePendulum": "InvertedDoublePendulum-v5",
    "InvertedPendulum": "InvertedPendulum-v5", "Pusher": "Pusher-v5", "Reacher": "Reacher-v5",
    "Swimmer": "Swimmer-v5", "Walker2d": "Walker2d-v5",
}
LIGHT = ("InvertedPendulum", "Reacher", "HalfCheetah", "Hopper")

MJ_RULE = (
    "MuJoCo: per environment and constructor configuration (default; all documented boolean "
    "observation/termination options flipped; mixed include_* patterns for Ant/Humanoid*; numeric options "
    "(reset_noise_scale, healthy ranges, reward weights, contact ranges) varied through the constructor), "
    "states = lerax initial(key) for many keys and <= 20-step random rollouts of the lerax transition, "
    "actions uniform in the action box, at bound corners and zero; every (config, key, step) is driven into "
    "Gymnasium <Name>-v5 and judged by the monitors M1 model identity, R reset, M2 formula on lerax data, "
    "M2r formula on C-engine data, M3 one-step data fidelity (contact-free steps only); extra "
    "'lifted' states (root raised 1 m, outside the reset distribution) feed M3 only, for environments "
    "that are always in ground contact; non-trivial = model array non-empty / step with non-zero action "
    "or reset; distinct by (env, config, key, step, monitor)")
MJ_ASSUMPTIONS = [
    "Gymnasium 1.3.0 <Name>-v5 (gym.make(id).unwrapped) and the MuJoCo C engine are the reference MDP",
    "Gymnasium reset == mj_resetData + set_state(qpos, qvel) (mj_forward); a real step == do_simulation",
    "formula tolerance |got-want| <= 1e-4 + 1e-5|want| (+ float32 cast slack 4*eps32*(1+max|qpos|)/dt per "
    "unit weight for velocity terms on C-engine data); data fidelity 1e-3 + 1e-3|want| only on steps where "
    "the C engine has ncon == 0 before and after every sub-step and MJX's nearest geom distance > 1e-3",
    "one-step data fidelity also excludes steps in which a joint limit is violated by more than 0.5 rad/m "
    "(only reachable through the wide reset noise of InvertedDoublePendulum)",
    "termination / survive-reward disagreements that flip under a 4e-6 relative perturbation of the loaded "
    "data are float32-vs-float64 threshold ties: excluded and counted (termination_boundary_ambiguous)",
    "HumanoidStandup uph_cost_weight is not varied: Gymnasium v5 itself ignores that argument",
    "lerax ships humanoid.xml / humanoidstandup.xml with solver=Newton where Gymnasium has PGS (MJX has no PGS): "
    "solver / iteration / tolerance options are numerical-method choices, noted in the evidence, not judged; "
    "timestep, integrator, gravity, cone, impratio, flags, density, viscosity, wind are judged",
    "reset-range monitor skips quaternion coordinates (MJX normalises them in place in forward, C keeps raw "
    "numbers for the same physical state); whether they have unit norm is noted",
    "info / reward components are compared on the keys both sides report; a Gymnasium reward component "
    "(reward_* / *_penalty) that lerax does not report is a violation of its own (JUDGE_MISSING_REWARD_COMPONENTS); "
    "other Gymnasium-only info keys are listed in the unit notes, not judged",
]

# The property text lists "reward components" among the things that must equal Gymnasium's.  A Gymnasium v5
# reward component (info key reward_* / *_penalty) that lerax's transition_info does not report under that name
# is judged (its own key); other Gymnasium-only info keys (z_distance_from_origin, y_velocity) are only noted.
JUDGE_MISSING_REWARD_COMPONENTS = True

_BOOLS = {
    "Ant": ["terminate_when_unhealthy", "exclude_current_positions_from_observation",
            "include_cfrc_ext_in_observation"],
    "HalfCheetah": ["exclude_current_positions_from_observation"],
    "Hopper": ["terminate_when_unhealthy", "exclude_current_positions_from_observation"],
    "Humanoid": ["terminate_when_unhealthy", "exclude_current_positions_from_observation",
                 "include_cinert_in_observation", "include_cvel_in_observation",
                 "include_qfrc_actuator_in_observation", "include_cfrc_ext_in_observation"],
    "HumanoidStandup": ["exclude_current_positions_from_observation", "include_cinert_in_observation",
                        "include_cvel_in_observation", "include_qfrc_actuator_in_observation",
                        "include_cfrc_ext_in_observation"],
    "InvertedDoublePendulum": [], "InvertedPendulum": [], "Pusher": [], "Reacher": [],
    "Swimmer": ["exclude_current_positions_from_observation"],
    "Walker2d": ["terminate_when_unhealthy", "exclude_current_positions_from_observation"],
}
# index of the root height coordinate for environments that rest on the ground (lifted states, M3 only)
_ROOT_Z = {"HalfCheetah": 1, "Hopper": 1, "Walker2d": 1, "HumanoidStandup": 2}
_TERMINATING = ("Ant", "Hopper", "Humanoid", "Walker2d", "InvertedPendulum", "InvertedDoublePendulum")
_EPS32 = 1.2e-7
_SKIP_FIELDS = ("efc_", "solver", "M", "qLD", "qLDiagInv", "ten_J", "actuator_moment", "time", "contact")


def _lh(label):
    import zlib

    return zlib.crc32(label.encode())


def mujoco_units(tier):
    names = tuple(ENVS)  # both tiers build all eleven environments (the heaviest takes ~80 s with the quick sizes)
    timeout = 1500 if tier == "quick" else 3000
    return [{"name": f"mj-{n}", "timeout": timeout} for n in names]


# ----------------------------------------------------------------------------------------------- configs

def _numeric_variation(name, rng, init_qpos):
    """Numeric constructor options, varied through the constructor (same names on both sides)."""
    u = lambda lo, hi: float(np.round(rng.uniform(lo, hi), 4))  # noqa: E731
    kw = {}
    if name == "Ant":
        kw = dict(forward_reward_weight=u(0.5, 3), ctrl_cost_weight=u(0.1, 2), contact_cost_weight=u(1e-4, 5e-3),
                  healthy_reward=u(0.2, 3), healthy_z_range=(u(0.5, 0.62), u(0.72, 0.8)),
                  contact_force_range=(-u(0.2, 3), u(0.2, 3)), reset_noise_scale=u(0.02, 0.2))
    elif name == "HalfCheetah":
        kw = dict(forward_reward_weight=u(0.5, 3), ctrl_cost_weight=u(0.02, 1), reset_noise_scale=u(0.02, 0.3))
    elif name == "Hopper":
        z0 = float(init_qpos[1])
        kw = dict(forward_reward_weight=u(0.5, 3), ctrl_cost_weight=u(1e-4, 0.1), healthy_reward=u(0.2, 3),
                  healthy_state_range=(-u(0.5, 3), u(0.5, 3)), healthy_z_range=(z0 - u(0.002, 0.02), z0 + u(0.002, 0.02)),
                  healthy_angle_range=(-u(0.002, 0.05), u(0.002, 0.05)), reset_noise_scale=u(0.002, 0.02))
    elif name == "Humanoid":
        z0 = float(init_qpos[2])
        kw = dict(forward_reward_weight=u(0.5, 3), ctrl_cost_weight=u(0.02, 1), contact_cost_weight=u(1e-7, 1e-5),
                  contact_cost_range=(-np.inf, u(0.001, 0.1)), healthy_reward=u(0.5, 8),
                  healthy_z_range=(z0 - u(0.002, 0.03), z0 + u(0.002, 0.03)), reset_noise_scale=u(0.003, 0.03))
    elif name == "HumanoidStandup":
        kw = dict(ctrl_cost_weight=u(0.02, 1), impact_cost_weight=u(1e-7, 1e-5),
                  impact_cost_range=(-np.inf, u(0.001, 0.1)), reset_noise_scale=u(0.003, 0.03))
    elif name == "InvertedPendulum":
        kw = dict(reset_noise_scale=u(0.003, 0.15))
    elif name == "InvertedDoublePendulum":
        kw = dict(healthy_reward=u(1, 20), reset_noise_scale=u(0.02, 0.3))
    elif name == "Pusher":
        kw = dict(reward_near_weight=u(0.1, 2), reward_dist_weight=u(0.2, 3), reward_control_weight=u(0.02, 1))
    elif name == "Reacher":
        kw = dict(reward_dist_weight=u(0.2, 3), reward_control_weight=u(0.2, 3))
    elif name == "Swimmer":
        kw = dict(forward_reward_weight=u(0.5, 3), ctrl_cost_weight=u(1e-5, 1e-2), reset_noise_scale=u(0.02, 0.3))
    elif name == "Walker2d":
        z0 = float(init_qpos[1])
        kw = dict(forward_reward_weight=u(0.5, 3), ctrl_cost_weight=u(1e-4, 0.1), healthy_reward=u(0.2, 3),
                  healthy_z_range=(z0 - u(0.002, 0.02), z0 + u(0.002, 0.02)),
                  healthy_angle_range=(-u(0.002, 0.05), u(0.002, 0.05)), reset_noise_scale=u(0.002, 0.02))
    return kw


def _configs(name, ctx, init_qpos):
    """[(label, kwargs, compiles)] -- boolean options change the compiled program, numeric ones do not."""
    bools = _BOOLS[name]
    out = [("default", {})]
    nnum = ctx.n(1, 3)
    for j in range(nnum):
        out.append((f"numeric{j}", _numeric_variation(name, ctx.rng, init_qpos)))
    if name == "InvertedDoublePendulum":
        # the only way to reach |qvel| > 10 (observation clip) before the episode terminates
        out.append(("wide-noise", dict(reset_noise_scale=float(np.round(ctx.rng.uniform(4, 8), 3)))))
    if bools:
        # numeric options do not change the compiled program, so the flipped booleans are run with tightened
        # healthy ranges too (otherwise "terminate_when_unhealthy=False" never meets an unhealthy state)
        out.append(("flipped-numeric", {**_numeric_variation(name, ctx.rng, init_qpos), **{b: False for b in bools}}))
        if not ctx.quick:
            out.append(("flipped", {b: False for b in bools}))
        if not ctx.quick and len(bools) >= 3:
            out.append(("mixed-a", {b: (i % 2 == 0) for i, b in enumerate(bools)}))
            out.append(("mixed-b", {b: (i % 2 == 1) for i, b in enumerate(bools)}))
    return out


# ------------------------------------------------------------------------------------- data transport

def _lerax_field_names(data):
    top = [f.name for f in dataclasses.fields(data) if f.name != "_impl"]
    impl = [f.name for f in dataclasses.fields(data._impl)] if hasattr(data, "_impl") else []
    return top, impl


def _get_lerax_field(data, name, top):
    return getattr(data, name) if name in top else getattr(data._impl, name)


def _transport_plan(data, mjdata):
    """Names of float arrays that exist with the same size in lerax's mjx.Data and Gymnasium's MjData."""
    top, impl = _lerax_field_names(data)
    plan = []
    for n in top + impl:
        if any(n == s or (s.endswith("_") and n.startswith(s)) for s in _SKIP_FIELDS):
            continue
        try:
            dst = getattr(mjdata, n)
            src = _get_lerax_field(data, n, top)
        except Exception:
            continue
        if not isinstance(dst, np.ndarray) or not hasattr(src, "shape"):
            continue
        if dst.dtype.kind != "f" or dst.size == 0 or dst.size != int(np.prod(src.shape)):
            continue
        plan.append(n)
    return plan, set(top)


def _load_into(mjdata, fields, scale=1.0):
    for n, src in fields.items():
        dst = getattr(mjdata, n)
        dst[...] = (src * scale).reshape(dst.shape)


def _snapshot(mjdata, plan):
    return {n: np.array(getattr(mjdata, n), dtype=np.float64).reshape(-1) for n in plan}


# --------------------------------------------------------------------------------------------- compare

def _cmp(got, want, atol, rtol, extra=0.0):
    got, want = np.asarray(got, np.float64).reshape(-1), np.asarray(want, np.float64).reshape(-1)
    if got.shape != want.shape:
        return False, {"shape_got": list(got.shape), "shape_want": list(want.shape)}
    if got.size == 0:
        return True, None
    bad_fin = np.isfinite(got) != np.isfinite(want)
    with np.errstate(invalid="ignore"):
        err = np.abs(got - want)
        tol = atol + rtol * np.abs(want) + extra
        bad = (err > tol) | bad_fin
    bad &= ~((got == want) & ~bad_fin)
    if not bad.any():
        return True, None
    idx = np.flatnonzero(bad)
    return False, {"n_bad": int(idx.size), "entries": idx[:24].tolist(), "got": got[idx[:12]].tolist(),
                   "want": want[idx[:12]].tolist(), "max_abs_err": float(np.nanmax(err[idx])) if idx.size else 0.0}


class _Harness:
    """Everything for one (environment, configuration)."""

    def __init__(self, ctx, name, label, kw, fns, base_env):
        import gymnasium as gym
        import equinox as eqx
        import lerax.env.mujoco as lm

        self.ctx, self.name, self.label, self.kw, self.fns = ctx, name, label, kw, fns
        lkw = dict(kw)
        self.env = getattr(lm, name)(**lkw)
        self.model_for_identity = self.env.mujoco_model
        if base_env is not None:
            # share the (static, identity-hashed) MjModel object so that numeric-only variations of the
            # constructor arguments reuse the compiled program; model identity was judged before this.
            self.env = eqx.tree_at(lambda e: e.mujoco_model, self.env, base_env.mujoco_model)
        self.gf = gym.make(ENVS[name], **kw).unwrapped   # formula twin (do_simulation stubbed)
        self.gd = gym.make(ENVS[name], **kw).unwrapped   # real twin
        self.gf.reset(seed=ctx.seed)
        self.gd.reset(seed=ctx.seed)
        self.holder = {}
        self.gf.do_simulation = self._stub
        self.dt = float(self.gd.dt)
        self.plan = None

    # -- Gymnasium side
    def _stub(self, ctrl, n_frames):
        _load_into(self.gf.data, self.holder["fields"], self.holder.get("scale", 1.0))

    def g_reset_to(self, g, qpos, qvel):
        import mujoco

        mujoco.mj_resetData(g.model, g.data)
        g.set_state(np.asarray(qpos, np.float64), np.asarray(qvel, np.float64))

    def key(self, k):
        return f"{k}-{self.name}"

    def viol(self, k, detail):
        d = {"env": self.name, "config": self.label, "options": {a: (list(b) if isinstance(b, tuple) else b)
                                                                for a, b in self.kw.items()}}
        d.update(detail)
        self.ctx.violation(self.key(k), d)


def _model_identity(h):
    ctx, name = h.ctx, h.name
    gm, lmod = h.gd.model, h.model_for_identity
    n = 0
    for attr in dir(gm):
        if attr.startswith("_"):
            continue
        try:
            a = getattr(gm, attr)
        except Exception:
            continue
        if not (isinstance(a, np.ndarray) and a.dtype.kind in "fiub"):
            continue
        if attr in ("vis", "names", "paths", "text_data"):
            continue
        try:
            b = getattr(lmod, attr)
        except Exception as e:
            h.viol("mj-model-array", {"array": attr, "error": repr(e)[:200]})
            continue
        n += 1
        ctx.case({"env": name, "config": h.label, "monitor": "model", "array": attr},
                 nontrivial=a.size > 0, cls="model-identity")
        ctx.monitor("model_arrays_compared")
        if a.shape != np.shape(b) or not np.array_equal(a, b, equal_nan=True):
            bad = np.flatnonzero(np.asarray(a).reshape(-1) != np.asarray(b).reshape(-1))[:8] if a.shape == np.shape(b) else []
            h.viol("mj-model-array", {"array": attr, "shape_got": list(np.shape(b)), "shape_want": list(a.shape),
                                      "entries": np.asarray(bad).tolist(),
                                      "got": np.asarray(b).reshape(-1)[bad].tolist() if len(bad) else None,
                                      "want": np.asarray(a).reshape(-1)[bad].tolist() if len(bad) else None})
    # names blob: same bodies/joints/actuators in the same order
    if bytes(gm.names) != bytes(lmod.names):
        h.viol("mj-model-array", {"array": "names"})
    statics = {
        "opt.timestep": (float(lmod.opt.timestep), float(gm.opt.timestep)),
        "opt.gravity": (np.asarray(lmod.opt.gravity).tolist(), np.asarray(gm.opt.gravity).tolist()),
        "opt.integrator": (int(lmod.opt.integrator), int(gm.opt.integrator)),
        "opt.cone": (int(lmod.opt.cone), int(gm.opt.cone)),
        "opt.impratio": (float(lmod.opt.impratio), float(gm.opt.impratio)),
        "opt.wind": (np.asarray(lmod.opt.wind).tolist(), np.asarray(gm.opt.wind).tolist()),
        "opt.enableflags": (int(lmod.opt.enableflags), int(gm.opt.enableflags)),
        "opt.disableflags": (int(lmod.opt.disableflags), int(gm.opt.disableflags)),
        "opt.viscosity": (float(lmod.opt.viscosity), float(gm.opt.viscosity)),
        "opt.density": (float(lmod.opt.density), float(gm.opt.density)),
        "frame_skip": (int(h.env.frame_skip), int(h.gd.frame_skip)),
    }
    numerics = {k: (getattr(lmod.opt, k), getattr(gm.opt, k)) for k in
                ("solver", "iterations", "ls_iterations", "tolerance", "ls_tolerance", "noslip_iterations", "jacobian")}
    differing = {k: {"lerax": float(a), "gymnasium": float(b)} for k, (a, b) in numerics.items() if a != b}
    if differing:
        ctx.notes["numerical_method_options_differing_from_gymnasium"] = differing
    for k, (got, want) in statics.items():
        ctx.monitor("static_attributes_compared")
        if got != want:
            h.viol("mj-static-attribute", {"what": k, "got": got, "want": want})
    ctx.monitor("static_attributes_compared")
    if abs(float(h.env.dt) - h.dt) > 1e-7 * max(1.0, h.dt):
        h.viol("mj-static-attribute", {"what": "dt", "got": float(h.env.dt), "want": h.dt})
    # spaces
    for what, ls, gs in (("action_space", h.env.action_space, h.gd.action_space),
                         ("observation_space", h.env.observation_space, h.gd.observation_space)):
        ctx.monitor("static_attributes_compared")
        lo, hi = np.asarray(ls.low, np.float64), np.asarray(ls.high, np.float64)
        glo, ghi = np.asarray(gs.low, np.float64), np.asarray(gs.high, np.float64)
        if tuple(ls.shape) != tuple(gs.shape) or not (np.array_equal(lo.reshape(-1), glo.reshape(-1))
                                                      and np.array_equal(hi.reshape(-1), ghi.reshape(-1))):
            h.viol("mj-static-attribute", {"what": what, "shape_got": list(ls.shape), "shape_want": list(gs.shape),
                                           "low_got": lo.reshape(-1)[:8].tolist(), "low_want": glo.reshape(-1)[:8].tolist(),
                                           "high_got": hi.reshape(-1)[:8].tolist(), "high_want": ghi.reshape(-1)[:8].tolist()})
    ctx.notes.setdefault("model_arrays", {})[h.label] = n


# --------------------------------------------------------------------------------------------- reset

def _reset_support(h, nkeys):
    """Reset samples lie in Gymnasium's reset support (uniform parts bounded, fixed entries fixed)."""
    from jax import random as jr

    ctx, name, env = h.ctx, h.name, h.env
    keys = jr.split(ctx.key(9000 + _lh(h.label) % 1000), nkeys)
    qp, qv = h.fns["vinit"](env, keys)
    qp, qv = np.asarray(qp, np.float64), np.asarray(qv, np.float64)
    q0, v0 = np.asarray(h.gd.init_qpos, np.float64), np.asarray(h.gd.init_qvel, np.float64)
    scale = float(h.kw.get("reset_noise_scale", getattr(h.gd, "_reset_noise_scale", np.nan)))
    bad = {}
    slack = 1e-6
    dq, dv = qp - q0, qv - v0
    normal_v = name in ("Ant", "HalfCheetah", "InvertedDoublePendulum")

    def bounded(d, s, what, cols=slice(None)):
        x = d[:, cols]
        if np.any(np.abs(x) > s + slack):
            i, j = np.unravel_index(np.argmax(np.abs(x)), x.shape)
            bad[what + "-out-of-range"] = {"max_abs": float(np.abs(x).max()), "bound": s, "sample": int(i), "entry": int(j)}
        if x.size and nkeys >= 32 and (np.abs(x).max(axis=0) < 0.6 * s).any():
            bad[what + "-range-too-narrow"] = {"per_entry_max_abs": np.abs(x).max(axis=0).tolist(), "bound": s}

    if name == "Reacher":
        bounded(dq, 0.1, "qpos", slice(0, 2))
        goal = qp[:, -2:]
        if np.any(np.linalg.norm(goal, axis=1) >= 0.2 + slack):
            bad["goal-outside-disc"] = {"max_norm": float(np.linalg.norm(goal, axis=1).max())}
        if nkeys >= 32 and np.linalg.norm(goal, axis=1).max() < 0.12:
            bad["goal-range-too-narrow"] = {"max_norm": float(np.linalg.norm(goal, axis=1).max())}
        bounded(dv, 0.005, "qvel", slice(0, 2))
        if np.any(qv[:, -2:] != 0):
            bad["target-velocity-not-zero"] = {"max": float(np.abs(qv[:, -2:]).max())}
    elif name == "Pusher":
        if np.any(qp[:, :-4] != q0[:-4]):
            bad["arm-qpos-not-init"] = {"max": float(np.abs(dq[:, :-4]).max())}
        cyl = qp[:, -4:-2]
        if np.any(cyl[:, 0] < -0.3 - slack) or np.any(cyl[:, 0] > slack) or np.any(np.abs(cyl[:, 1]) > 0.2 + slack):
            bad["cylinder-outside-box"] = {"min": cyl.min(axis=0).tolist(), "max": cyl.max(axis=0).tolist()}
        if np.any(np.linalg.norm(cyl, axis=1) <= 0.17 - slack):
            bad["cylinder-too-close-to-goal"] = {"min_norm": float(np.linalg.norm(cyl, axis=1).min())}
        if np.any(qp[:, -2:] != 0):
            bad["goal-not-origin"] = {}
        bounded(dv, 0.005, "qvel", slice(0, dv.shape[1] - 4))
        if np.any(qv[:, -4:] != 0):
            bad["object-goal-velocity-not-zero"] = {}
    else:
        # quaternion coordinates of free / ball joints: MJX's forward pass normalises them in place, the C
        # engine keeps the raw numbers (same physical state) -> not range-checked, only noted
        m = h.gd.model
        quat = np.zeros(m.nq, bool)
        for j in range(m.njnt):
            a0 = int(m.jnt_qposadr[j])
            if int(m.jnt_type[j]) == 0:
                quat[a0 + 3:a0 + 7] = True
            elif int(m.jnt_type[j]) == 1:
                quat[a0:a0 + 4] = True
        if quat.any():
            nrm = np.linalg.norm(qp[:, quat].reshape(nkeys, -1, 4), axis=-1)
            ctx.notes.setdefault("reset_quaternion_unit_norm", {})[h.label] = bool(np.all(np.abs(nrm - 1) < 1e-5))
        bounded(dq[:, ~quat], scale, "qpos")
        if normal_v:
            z = dv / scale
            # 5.5 sigma two-sided per entry over nkeys*nv draws stays silent on correct code
            if np.any(np.abs(z) > 6.5):
                bad["qvel-normal-outlier"] = {"max_z": float(np.abs(z).max())}
            if nkeys >= 64:
                sd = z.std(axis=0)
                tol = 5.5 / np.sqrt(2 * nkeys)
                if np.any(np.abs(sd - 1) > tol + 0.02):
                    bad["qvel-normal-scale"] = {"std_over_scale": sd.tolist(), "tol": float(tol)}
        else:
            bounded(dv, scale, "qvel")
    ctx.monitor("reset_support_samples", nkeys)
    ctx.case({"env": name, "config": h.label, "monitor": "reset-support", "n": nkeys}, nontrivial=True,
             cls="reset-support")
    for what, det in bad.items():
        h.viol("mj-reset-distribution", {"what": what, **det, "reset_noise_scale": scale})


def _action(h, rng, i):
    lo = np.asarray(h.gd.action_space.low, np.float64)
    hi = np.asarray(h.gd.action_space.high, np.float64)
    r = i % 5
    if r == 3:      # a bound corner
        a = np.where(rng.random(lo.shape) < 0.5, lo, hi)
        kind = "corner"
    elif r == 4 and i % 10 == 4:
        a = np.zeros_like(lo)
        kind = "zero"
    elif r == 4:    # some coordinates on the bound
        a = rng.uniform(lo, hi)
        m = rng.random(lo.shape) < 0.5
        a = np.where(m, np.where(rng.random(lo.shape) < 0.5, lo, hi), a)
        kind = "partial-bound"
    else:
        a = rng.uniform(lo, hi)
        kind = "interior"
    return a.astype(np.float32), kind


def _info_pairs(ginfo, linfo):
    return sorted(set(ginfo) & set(linfo))


def _weight_scale(h):
    w = [abs(float(v)) for k, v in h.kw.items() if "weight" in k and np.isscalar(v)]
    return max([1.0, 1.25] + w)


def _provenance(values, fields):
    """Which data arrays contain these numbers (diagnostic only: e.g. got in xipos, want in xpos)."""
    out = []
    for v in list(values)[:6]:
        if not np.isfinite(v) or v == 0:
            out.append([])
            continue
        out.append([n for n, a in fields.items() if n not in ("qpos", "qvel")
                    and np.any(np.abs(a - v) <= 2e-7 * (1 + abs(v)))][:6])
    return out


def _judge_outputs(h, tag, got, want, tol, detail, keys, fields=None):
    """got/want = (obs, reward, terminated, info).  keys maps output -> violation key.  Returns #mismatches."""
    ctx = h.ctx
    atol, rtol, vel_extra = tol
    nbad = 0
    ok, d = _cmp(got[0], want[0], atol, rtol)
    ctx.monitor(f"{tag}_observation_compared")
    if not ok:
        nbad += 1
        if fields is not None and "got" in d:
            d = {**d, "got_values_found_in_data_arrays": _provenance(d["got"], fields),
                 "want_values_found_in_data_arrays": _provenance(d["want"], fields)}
        h.viol(keys["obs"], {"monitor": tag, "output": "observation", **d, **detail})
    comp_bad = []
    for k in _info_pairs(want[3], got[3]):
        isvel = ("velocity" in k and "penalty" not in k) or k in ("reward_forward",)
        ok, d = _cmp(got[3][k], want[3][k], atol, rtol, extra=vel_extra if isvel else 0.0)
        ctx.monitor(f"{tag}_info_entries_compared")
        if not ok:
            nbad += 1
            comp_bad.append(k)
            h.viol(f"{keys['info']}-{k}", {"monitor": tag, "output": f"info[{k}]", **d, **detail})
    ok, d = _cmp(got[1], want[1], atol, rtol, extra=vel_extra)
    ctx.monitor(f"{tag}_reward_compared")
    if not ok:
        nbad += 1
        if not any(k.startswith("reward") or "penalty" in k or "bonus" in k for k in comp_bad):
            # total wrong although every shared component agrees: its own mechanism
            h.viol(keys["reward"], {"monitor": tag, "output": "reward", **d, **detail})
        else:
            ctx.monitor(f"{tag}_reward_mismatch_explained_by_component")
    ctx.monitor(f"{tag}_terminated_compared")
    if bool(got[2]) != bool(want[2]):
        nbad += 1
        h.viol(keys["term"], {"monitor": tag, "output": "terminated", "got": bool(got[2]), "want": bool(want[2]),
                              **detail})
    return nbad


_FKEYS = {"obs": "mj-observation-formula", "info": "mj-info", "reward": "mj-reward-formula",
          "term": "mj-termination-formula"}
_IKEYS = {"obs": "mj-initial-without-forward-kinematics", "info": "mj-initial-without-forward-kinematics",
          "reward": "mj-initial-without-forward-kinematics", "term": "mj-initial-without-forward-kinematics"}


def _gym_formula_step(h, before, after, action, first_true=None, scale=1.0):
    """Gymnasium's own step() on lerax's data.  before: dict of lerax pre-step arrays, or None with
    first_true=(qpos, qvel) for a true reset."""
    g = h.gf
    if first_true is not None:
        h.g_reset_to(g, *first_true)
    else:
        import mujoco

        mujoco.mj_resetData(g.model, g.data)
        _load_into(g.data, before, scale)
    h.holder["fields"] = after
    h.holder["scale"] = scale
    obs, rew, term, _, info = g.step(np.asarray(action, np.float64))
    return np.array(obs, np.float64), float(rew), bool(term), {k: np.array(v, np.float64) for k, v in info.items()}


def _health_signature(term, info):
    v = info.get("reward_survive")
    return (bool(term), None if v is None else round(float(np.asarray(v).reshape(-1)[0]), 6))


def _ambiguous_boundary(h, before, after, action, first_true=None):
    """Does Gymnasium's healthy/terminated verdict flip under a tiny relative perturbation of the loaded data?
    Then the state sits on a threshold within float32 resolution and the step is excluded (and counted)."""
    seen = set()
    for sc in (1 - 4e-6, 1.0, 1 + 4e-6):
        try:
            _, _, t, info = _gym_formula_step(h, before, after, action, first_true=first_true, scale=sc)
        except Exception:
            return False
        seen.add(_health_signature(t, info))
    return len(seen) > 1


_CLEARANCE = 0.02


def _contact_trace(h, qpos, qvel, action):
    """Classification only, on a private copy of the model whose geom margins are widened by _CLEARANCE:
    number of geom pairs within margin + clearance at the start, after each sub-step of the C engine and at
    the positions extrapolated half a / one time-step ahead (where the RK4 stages of either engine evaluate
    their contacts: a contact that exists only inside a stage never shows in data.ncon after mj_step)."""
    import copy

    import mujoco

    if "_scratch" not in h.__dict__:
        m = copy.copy(h.gd.model)
        m.geom_margin[:] = m.geom_margin + _CLEARANCE
        h._scratch = (m, mujoco.MjData(m), mujoco.MjData(m))
    m, d, dp = h._scratch
    mujoco.mj_resetData(m, d)
    d.qpos[:] = qpos
    d.qvel[:] = qvel
    mujoco.mj_forward(m, d)
    ncon = [int(d.ncon)]
    nefc = [int(d.nefc) - 0]
    deep = [float(np.min(d.efc_pos[:d.nefc])) if d.nefc else 0.0]
    d.ctrl[:] = action
    hstep = float(m.opt.timestep)

    def probe(frac):
        dp.qpos[:] = d.qpos
        mujoco.mj_integratePos(m, dp.qpos, d.qvel, frac * hstep)
        mujoco.mj_kinematics(m, dp)
        mujoco.mj_collision(m, dp)
        return int(dp.ncon)

    for _ in range(int(h.gd.frame_skip)):
        ncon.append(probe(0.5))
        ncon.append(probe(1.0))
        mujoco.mj_step(m, d)
        ncon.append(int(d.ncon))
        nefc.append(int(d.nefc))
        deep.append(float(np.min(d.efc_pos[:d.nefc])) if d.nefc else 0.0)
    return ncon, nefc, min(deep)


def _run_config(h, nkeys, nsteps, nlift):
    import jax.numpy as jnp

    ctx, name, env, fns = h.ctx, h.name, h.env, h.fns
    rng = ctx.rng
    W = _weight_scale(h)
    contact_stats = {"steps": 0, "g_cfrc_nonzero": 0, "l_cfrc_nonzero": 0, "g_obs_cfrc_nonzero": 0}
    reads_cfrc = name in ("Ant", "Humanoid", "HumanoidStandup")
    jkey = ctx.key(0)
    maxerr = ctx.notes.setdefault("max_abs_err", {}).setdefault(h.label, {})

    def track(k, got, want):
        got, want = np.asarray(got, np.float64).reshape(-1), np.asarray(want, np.float64).reshape(-1)
        if got.shape == want.shape and got.size:
            with np.errstate(invalid="ignore"):
                e = float(np.nanmax(np.abs(got - want)))
            if np.isfinite(e):
                maxerr[k] = max(maxerr.get(k, 0.0), e)

    for ki in range(nkeys + nlift):
        lifted = ki >= nkeys
        kidx = 100 + ki + 1000 * (_lh(h.label) % 97)
        try:
            s, lobs0, vec0 = fns["init"](env, ctx.key(kidx))
        except Exception as e:  # documented option raising is a finding, not a crash
            h.viol("mj-constructor-option-raises", {"where": "initial/observation", "error": repr(e)[:400]})
            return
        h.plan, h.top = fns["plan"], fns["top"]
        sizes = fns["sizes"]
        qpos0 = np.asarray(s.sim_state.qpos, np.float64)
        qvel0 = np.asarray(s.sim_state.qvel, np.float64)

        if not lifted:
            # ---------------- R: observation at reset
            h.g_reset_to(h.gd, qpos0, qvel0)
            gobs_true = np.array(h.gd._get_obs(), np.float64)
            true_fields = _snapshot(h.gd.data, h.plan)
            l0 = _unpack(vec0, h.plan, sizes)
            # (F) Gymnasium's formula on lerax's initial data
            import mujoco

            mujoco.mj_resetData(h.gf.model, h.gf.data)
            _load_into(h.gf.data, l0)
            gobs_on_l = np.array(h.gf._get_obs(), np.float64)
            # (Fr) lerax's formula on the C engine's reset data
            lobs_on_c = np.asarray(fns["obs"](env, s, jnp.asarray(_pack_np(true_fields, h.plan))), np.float64)
            desc = {"env": name, "config": h.label, "key": kidx, "monitor": "reset"}
            ctx.case(desc, nontrivial=True, cls=f"reset/{h.label}")
            ctx.monitor("reset_observations_compared")
            wit = {"key_index": kidx, "qpos": qpos0, "qvel": qvel0}
            ok_e2e, d_e2e = _cmp(lobs0, gobs_true, 1e-4, 1e-5)
            ok_f, d_f = _cmp(lobs0, gobs_on_l, 1e-4, 1e-5)
            ok_fr, d_fr = _cmp(lobs_on_c, gobs_true, 1e-4, 1e-5)
            ok_d, d_d = _cmp(gobs_on_l, gobs_true, 1e-4, 1e-5)
            track("reset_obs_end_to_end", lobs0, gobs_true)
            if not ok_f:
                h.viol("mj-observation-formula", {"monitor": "reset/formula-on-lerax-data", **d_f, **wit})
            if not ok_fr:
                d_fr = {**d_fr, "got_values_found_in_data_arrays": _provenance(d_fr.get("got", []), true_fields),
                        "want_values_found_in_data_arrays": _provenance(d_fr.get("want", []), true_fields)}
                h.viol("mj-observation-formula", {"monitor": "reset/formula-on-C-data", **d_fr, **wit})
            if not ok_d:
                stale = [n for n in h.plan if not np.allclose(l0[n], true_fields[n], atol=1e-4, rtol=1e-4)
                         and n not in ("qacc", "qacc_warmstart", "qacc_smooth")]
                zero = [n for n in stale if not np.any(l0[n])]
                h.viol("mj-initial-without-forward-kinematics",
                       {"monitor": "reset/observation", "what": "Gymnasium's _get_obs() on lerax's initial() data differs "
                        "from _get_obs() after reset to the same qpos/qvel", **d_d, "lerax_obs": np.asarray(lobs0)[d_d.get("entries", [])[:12]],
                        "fields_differing_from_mj_forward": stale[:24], "of_which_identically_zero": zero[:24], **wit})
            if not ok_e2e and ok_f and ok_d and ok_fr:
                h.viol("mj-reset-observation", {"monitor": "reset/end-to-end", **d_e2e, **wit})
            if not ok_e2e:
                ctx.monitor("reset_observation_end_to_end_mismatch")
        else:
            z = _ROOT_Z[name]
            qpos_l = qpos0.copy()
            qpos_l[z] += 1.0
            s = fns["set_qpos"](s, jnp.asarray(qpos_l, jnp.float32))

        # ---------------- rollout
        for t in range(nsteps):
            a, akind = _action(h, rng, t + 3 * ki)
            try:
                ns, lobs, lrew, lterm, linfo, vec_b, vec_a, ldist0, ldist = fns["step"](env, s, jnp.asarray(a), jkey)
            except Exception as e:
                h.viol("mj-constructor-option-raises", {"where": "transition/reward/...", "error": repr(e)[:400]})
                return
            lobs = np.asarray(lobs, np.float64)
            lrew, lterm = float(lrew), bool(lterm)
            linfo = {k: np.asarray(v, np.float64) for k, v in linfo.items()}
            qpos = np.asarray(vec_b, np.float64)[_offset(h.plan, sizes, "qpos")]
            qvel = np.asarray(vec_b, np.float64)[_offset(h.plan, sizes, "qvel")]
            wit = {"key_index": kidx, "step": t, "lifted": lifted, "qpos": qpos, "qvel": qvel, "action": a}
            if not (np.all(np.isfinite(lobs)) and np.all(np.isfinite(qpos))):
                ctx.monitor("rollout_stopped_nonfinite")
                break
            before = _unpack(vec_b, h.plan, sizes)
            after = _unpack(vec_a, h.plan, sizes)
            first = (t == 0) and not lifted
            cls_step = "first" if first else ("lifted" if lifted else "later")

            # Gymnasium's formulas on lerax's data (judged as M2 below; M3 reuses the observation so that a
            # formula difference cannot show up as a data difference)
            want = _gym_formula_step(h, before, after, a)
            if not lifted:
                # ------------ M2
                got = (lobs, lrew, lterm, linfo)
                amb = False
                if want[2] != lterm or abs(want[1] - lrew) > 1e-4 + 1e-5 * abs(want[1]):
                    if name in _TERMINATING and _ambiguous_boundary(h, before, after, a):
                        amb = True
                        ctx.monitor("termination_boundary_ambiguous")
                if not amb:
                    ctx.case({"env": name, "config": h.label, "key": kidx, "step": t, "monitor": "formula"},
                             nontrivial=bool(np.any(a != 0)), cls=f"formula/{cls_step}/{akind}")
                    _judge_outputs(h, "formula", got, want, (1e-4, 1e-5, 0.0), wit, _FKEYS, fields=after)
                    track("formula_obs", lobs, want[0])
                    track("formula_reward", lrew, want[1])
                    ctx.monitor("terminated_true_steps" if want[2] else "terminated_false_steps")
                    if not want[2] and "terminate_when_unhealthy" in _BOOLS[name] and bool(getattr(h.gf, "is_healthy", True)) is False:
                        ctx.monitor("unhealthy_but_not_terminated_steps")
                    if name in ("Hopper", "Walker2d", "InvertedDoublePendulum") and np.max(np.abs(after["qvel"])) > 10:
                        ctx.monitor("observation_velocity_clip_active_steps")
                    missing = sorted(set(want[3]) - set(linfo))
                    if missing:
                        ctx.notes.setdefault("gymnasium_info_keys_not_reported_by_lerax", missing)
                    comps = [k for k in missing if k.startswith("reward_") or k.endswith("_penalty")]
                    if comps and JUDGE_MISSING_REWARD_COMPONENTS and not h.__dict__.get("_components_reported"):
                        h._components_reported = True
                        h.viol("mj-reward-components-not-reported",
                               {"monitor": "formula", "what": "Gymnasium v5 reports these reward components in info; "
                                "lerax's transition_info has no entry of that name",
                                "missing": comps, "gymnasium_info": {k: want[3][k] for k in comps},
                                "lerax_transition_info_keys": sorted(linfo), **wit})
                    if first:
                        # first step of an episode: Gymnasium's "before" arrays are the true kinematics
                        want1 = _gym_formula_step(h, None, after, a, first_true=(qpos, qvel))
                        ctx.monitor("first_step_true_kinematics_compared")
                        ctx.case({"env": name, "config": h.label, "key": kidx, "step": t, "monitor": "first-step"},
                                 nontrivial=True, cls=f"first-step-true-before/{akind}")
                        # only what the stale pre-step arrays change is attributed to initial()
                        same_as_formula = {"obs": _cmp(want1[0], want[0], 1e-4, 1e-5)[0],
                                           "reward": _cmp(want1[1], want[1], 1e-4, 1e-5)[0]}
                        if not (same_as_formula["obs"] and same_as_formula["reward"]) or want1[2] != want[2] or any(
                                not _cmp(want1[3][k], want[3][k], 1e-4, 1e-5)[0] for k in want[3]):
                            diffk = [k for k in want[3] if not _cmp(want1[3][k], want[3][k], 1e-4, 1e-5)[0]]
                            ctx.notes.setdefault("first_step_witness_initial_without_forward", {
                                "config": h.label, "key_index": kidx, "qpos": qpos.tolist(), "qvel": qvel.tolist(),
                                "action": a.tolist(), "lerax_reward": lrew, "gymnasium_reward_after_reset": want1[1],
                                "info_lerax": {k: float(np.asarray(linfo[k]).reshape(-1)[0]) for k in diffk if k in linfo},
                                "info_gymnasium": {k: float(np.asarray(want1[3][k]).reshape(-1)[0]) for k in diffk}})
                            h.viol("mj-initial-without-forward-kinematics",
                                   {"monitor": "first-step/reward", "what": "Gymnasium's step() gives a different result when the "
                                    "pre-step arrays are lerax's initial() data instead of the reset kinematics",
                                    "reward_with_lerax_initial_data": want[1], "reward_with_reset_kinematics": want1[1],
                                    "lerax_reward": lrew, "info_keys_changed": diffk,
                                    "info_with_lerax_initial_data": {k: want[3][k] for k in diffk[:6]},
                                    "info_with_reset_kinematics": {k: want1[3][k] for k in diffk[:6]}, **wit})

            # ------------ M2p: the same formula comparison on *planted* data: the post-step generalised
            # velocities scaled by 4 / 25 / 200, identically in what Gymnasium's step() sees and in what lerax's
            # formulas see.  Random rollouts never reach |qvel| beyond ~20, so velocity-dependent clauses
            # (health ranges, velocity clips, finiteness tests) are otherwise never exercised near their limits.
            if not lifted and (t % 3 == 0):
                kv = float([4.0, 25.0, 200.0][(t // 3 + ki) % 3])
                after_p = dict(after)
                after_p["qvel"] = np.asarray(after["qvel"], np.float64) * kv
                want_p = _gym_formula_step(h, before, after_p, a)
                vec_p = jnp.asarray(_pack_np(after_p, h.plan))
                pobs, prew, pterm, pinfo = fns["judge"](env, s, jnp.asarray(a), ns, jnp.asarray(vec_b), vec_p, jkey)
                got_p = (np.asarray(pobs, np.float64), float(prew), bool(pterm), {k: np.asarray(v, np.float64) for k, v in pinfo.items()})
                near_tie = name in _TERMINATING and _ambiguous_boundary(h, before, after_p, a)
                if not near_tie and np.all(np.isfinite(want_p[0])):
                    ctx.case({"env": name, "config": h.label, "key": kidx, "step": t, "monitor": "formula-planted-velocity", "scale": kv},
                             nontrivial=True, cls=f"formula-planted-velocity/x{int(kv)}")
                    ctx.monitor("planted_velocity_terminated_true" if want_p[2] else "planted_velocity_terminated_false")
                    _judge_outputs(h, "formula_planted", got_p, want_p, (1e-4 * kv, 1e-5, 0.0),
                                   {**wit, "planted_qvel_scale": kv, "planted_qvel": after_p["qvel"]}, _FKEYS, fields=after_p)

            # ------------ M3 + M2r: a real Gymnasium step from the same (qpos, qvel, action)
            ncon, nefc, deepest = _contact_trace(h, qpos, qvel, a)
            h.g_reset_to(h.gd, qpos, qvel)
            c_before = _snapshot(h.gd.data, h.plan)
            gobs, grew, gterm, _, ginfo = h.gd.step(np.asarray(a, np.float64))
            gobs, grew, gterm = np.array(gobs, np.float64), float(grew), bool(gterm)
            ginfo = {k: np.array(v, np.float64) for k, v in ginfo.items()}
            c_after = _snapshot(h.gd.data, h.plan)
            ldist = float(ldist)
            ldist0 = float(ldist0) if (not first and not (lifted and t == 0)) else np.inf
            # a joint limit violated by more than 0.5 rad / m only happens for teleported states (the wide-noise
            # reset of InvertedDoublePendulum puts the cart metres beyond its rail): stiff impact regime in which the
            # two constraint solvers legitimately differ, like a fresh contact
            contact_free = max(ncon) == 0 and min(ldist, ldist0) > _CLEARANCE and deepest > -0.5
            if max(ncon) == 0 and deepest <= -0.5:
                ctx.monitor("data_fidelity_inconclusive_by_deep_limit_violation")

            if not lifted:
                # M2r: lerax's formulas on the C engine's data
                cvb, cva = jnp.asarray(_pack_np(c_before, h.plan)), _pack_np(c_after, h.plan)
                robs, rrew, rterm, rinfo = fns["judge"](env, s, jnp.asarray(a), ns, cvb, jnp.asarray(cva), jkey)
                rgot = (np.asarray(robs, np.float64), float(rrew), bool(rterm),
                        {k: np.asarray(v, np.float64) for k, v in rinfo.items()})
                vel_extra = 4 * _EPS32 * (1 + float(np.max(np.abs(c_after["qpos"])))) / h.dt * W
                amb = False
                if name in _TERMINATING and (rgot[2] != gterm or abs(rgot[1] - grew) > 2e-4 + 1e-5 * abs(grew) + vel_extra):
                    # threshold tie after the float32 cast of the C engine's data?
                    zs = {_health_signature(rgot[2], rgot[3])}
                    for scl in (1 - 4e-6, 1 + 4e-6):
                        r2 = fns["judge"](env, s, jnp.asarray(a), ns, cvb, jnp.asarray((cva * scl).astype(np.float32)), jkey)
                        zs.add(_health_signature(bool(r2[2]), {k: np.asarray(v) for k, v in r2[3].items()}))
                    amb = len(zs) > 1
                    if amb:
                        ctx.monitor("termination_boundary_ambiguous")
                if not amb:
                    ctx.case({"env": name, "config": h.label, "key": kidx, "step": t, "monitor": "formula-rev"},
                             nontrivial=bool(np.any(a != 0)),
                             cls=f"formula-on-C-data/{'contact' if max(ncon) else 'no-contact'}")
                    _judge_outputs(h, "formula_rev", rgot, (gobs, grew, gterm, ginfo), (2e-4, 1e-5, vel_extra),
                                   {**wit, "ncon_trace": ncon}, _FKEYS, fields=c_after)
                    track("formula_rev_obs", rgot[0], gobs)
                    track("formula_rev_reward", rgot[1], grew)

            # M3: data fidelity
            desc = {"env": name, "config": h.label, "key": kidx, "step": t, "monitor": "data"}
            if contact_free:
                ctx.case(desc, nontrivial=True, cls=f"data/contact-free/{cls_step}")
                ctx.monitor("data_fidelity_contact_free_steps")
                if max(nefc) > 0:
                    ctx.monitor("data_fidelity_contact_free_steps_with_limit_constraints")
                ok, d = _cmp(want[0], gobs, 1e-3, 1e-3)
                track("data_obs_contact_free", want[0], gobs)
                ok2, d2 = _cmp(after["qpos"], c_after["qpos"], 1e-3, 1e-3)
                ok3, d3 = _cmp(after["qvel"], c_after["qvel"], 1e-3, 1e-3)
                track("data_qpos_contact_free", after["qpos"], c_after["qpos"])
                track("data_qvel_contact_free", after["qvel"], c_after["qvel"])
                if not (ok2 and ok3):
                    h.viol("mj-transition-data", {"monitor": "data/contact-free", "output": "qpos/qvel after one step",
                                                  **(d2 or d3), "nefc_trace": nefc, **wit})
                elif not ok:
                    # Gymnasium's observation formula on lerax's data vs on the C engine's data differs
                    # although qpos/qvel agree: a derived array (xpos, cvel, cinert, qfrc_*, ...) differs
                    h.viol("mj-transition-derived-data", {"monitor": "data/contact-free", "output": "observation",
                                                          **d, "nefc_trace": nefc, **wit})
            else:
                ctx.case(desc, nontrivial=True, cls=f"data/contact/{cls_step}")
                ctx.monitor("data_fidelity_inconclusive_by_contact")
                track("data_qpos_contact_steps_informational", after["qpos"], c_after["qpos"])
                track("data_qvel_contact_steps_informational", after["qvel"], c_after["qvel"])
                if reads_cfrc and max(ncon) > 0:
                    contact_stats["steps"] += 1
                    gnz = bool(np.any(c_after["cfrc_ext"]))
                    contact_stats["g_cfrc_nonzero"] += int(gnz)
                    contact_stats["l_cfrc_nonzero"] += int(bool(np.any(after["cfrc_ext"])))
                    if gnz and contact_stats.get("witness") is None:
                        contact_stats["witness"] = {**wit, "ncon_trace": ncon,
                                                    "gymnasium_cfrc_ext_sum_sq": float(np.sum(c_after["cfrc_ext"] ** 2)),
                                                    "lerax_cfrc_ext_sum_sq": float(np.sum(after["cfrc_ext"] ** 2)),
                                                    "observation_entries_zero_in_lerax_nonzero_in_gymnasium": int(np.sum(
                                                        (lobs == 0) & (np.abs(gobs) > 1e-6))) if lobs.shape == gobs.shape else None,
                                                    "gymnasium_info": {k: ginfo[k] for k in ginfo if "contact" in k or "impact" in k},
                                                    "lerax_info": {k: linfo[k] for k in linfo if "contact" in k or "impact" in k}}

            if (not lifted) and gterm and h.kw.get("terminate_when_unhealthy", True) and name in _TERMINATING:
                break
            s = ns

    if reads_cfrc:
        ctx.monitor("contact_steps_structural", contact_stats["steps"])
        ctx.notes.setdefault("contact_structural", {})[h.label] = {k: v for k, v in contact_stats.items() if k != "witness"}
        if contact_stats["g_cfrc_nonzero"] > 0 and contact_stats["l_cfrc_nonzero"] == 0:
            h.viol("mj-cfrc-ext-never-computed",
                   {"monitor": "data/contact-structural",
                    "what": "data.cfrc_ext is identically zero on every contact step of the run while the C engine's "
                            "(mj_rnePostConstraint, as Gymnasium's do_simulation) is non-zero",
                    "contact_steps": contact_stats["steps"], "gymnasium_nonzero_steps": contact_stats["g_cfrc_nonzero"],
                    "lerax_nonzero_steps": 0, **(contact_stats.get("witness") or {})})


def _make_fns(plan, top):
    """One compiled program per (function, boolean-option signature).  The arrays that travel between lerax's
    mjx.Data and Gymnasium's MjData are packed into one flat vector inside the compiled function."""
    import equinox as eqx
    import jax
    import jax.numpy as jnp

    def pack(data):
        return jnp.concatenate([jnp.ravel(_get_lerax_field(data, n, top)).astype(jnp.float32) for n in plan])

    def mindist(data):
        d = data._impl.contact.dist
        return jnp.min(d) if d.size else jnp.array(jnp.inf)

    def graft(state, vec):
        leaves, off = [], 0
        where = lambda s: [getattr(s.sim_state, n) if n in top else getattr(s.sim_state._impl, n) for n in plan]  # noqa: E731
        for c in where(state):
            leaves.append(vec[off:off + c.size].reshape(c.shape).astype(c.dtype))
            off += c.size
        return eqx.tree_at(where, state, leaves)

    @eqx.filter_jit
    def init(env, key):
        s = env.initial(key=key)
        return s, env.observation(s, key=key), pack(s.sim_state)

    @eqx.filter_jit
    def vinit(env, keys):
        def one(k):
            s = env.initial(key=k)
            return s.sim_state.qpos, s.sim_state.qvel
        return jax.vmap(one)(keys)

    @eqx.filter_jit
    def step(env, s, a, key):
        ns = env.transition(s, a, key=key)
        return (ns, env.observation(ns, key=key), env.reward(s, a, ns, key=key), env.terminal(ns, key=key),
                env.transition_info(s, a, ns), pack(s.sim_state), pack(ns.sim_state),
                mindist(s.sim_state), mindist(ns.sim_state))

    @eqx.filter_jit
    def judge(env, s, a, ns, vec_before, vec_after, key):
        s, ns = graft(s, vec_before), graft(ns, vec_after)
        return (env.observation(ns, key=key), env.reward(s, a, ns, key=key), env.terminal(ns, key=key),
                env.transition_info(s, a, ns))

    @eqx.filter_jit
    def obs(env, s, vec):
        return env.observation(graft(s, vec), key=jax.random.key(0))

    @eqx.filter_jit
    def set_qpos(s, qpos):
        return eqx.tree_at(lambda x: x.sim_state.qpos, s, qpos.astype(s.sim_state.qpos.dtype))

    return {"init": init, "vinit": vinit, "step": step, "judge": judge, "obs": obs, "set_qpos": set_qpos}


def _offset(plan, sizes, name):
    off = 0
    for n in plan:
        if n == name:
            return slice(off, off + sizes[n])
        off += sizes[n]
    raise KeyError(name)


def _unpack(vec, plan, sizes):
    vec = np.asarray(vec, np.float64)
    out, off = {}, 0
    for n in plan:
        out[n] = vec[off:off + sizes[n]]
        off += sizes[n]
    return out


def _pack_np(fields, plan):
    return np.concatenate([np.asarray(fields[n], np.float64).reshape(-1) for n in plan]).astype(np.float32)


def run_mujoco_unit(name, ctx):
    import time
    import warnings

    warnings.filterwarnings("ignore")
    assert name.startswith("mj-"), name
    env_name = name[3:]
    if env_name not in ENVS:
        raise ValueError(f"unknown MuJoCo unit {name}")
    import gymnasium as gym

    import lerax.env.mujoco as lm
    from mujoco import mjx

    g0 = gym.make(ENVS[env_name]).unwrapped
    e0 = getattr(lm, env_name)()
    tmpl = mjx.make_data(e0.model)
    plan, top = _transport_plan(tmpl, g0.data)
    sizes = {n: int(np.size(getattr(g0.data, n))) for n in plan}
    fns = _make_fns(tuple(plan), frozenset(top))
    fns["plan"], fns["top"], fns["sizes"] = plan, top, sizes
    ctx.notes["transported_fields"] = len(plan)
    init_qpos = np.array(g0.init_qpos, np.float64)
    heavy = env_name in ("Humanoid", "HumanoidStandup", "Ant")
    nkeys = ctx.n(5, 12 if heavy else 24)
    nsteps = ctx.n(6, 20)
    nlift = ctx.n(1, 4) if env_name in _ROOT_Z else 0
    base_by_static = {}
    t0 = time.time()
    last_sig = None
    for label, kw in _configs(env_name, ctx, init_qpos):
        static_sig = tuple(sorted((k, v) for k, v in kw.items() if isinstance(v, bool)))
        if last_sig is not None and static_sig != last_sig:
            # the compiled programs of the previous boolean signature are not needed any more (memory)
            import jax

            base_by_static.clear()
            jax.clear_caches()
        last_sig = static_sig
        try:
            h = _Harness(ctx, env_name, label, kw, fns, base_by_static.get(static_sig))
        except Exception as e:
            ctx.violation(f"mj-constructor-option-raises-{env_name}",
                          {"env": env_name, "config": label, "options": {k: str(v) for k, v in kw.items()},
                           "error": repr(e)[:400]})
            continue
        base_by_static.setdefault(static_sig, h.env)
        ctx.monitor("configurations_run")
        try:
            _model_identity(h)
        except Exception as e:
            ctx.inconc(f"{label}: model identity monitor crashed: {e!r}"[:400])
        try:
            _reset_support(h, ctx.n(64, 512))
        except Exception as e:
            h.viol("mj-constructor-option-raises", {"where": "vmapped initial", "error": repr(e)[:400]})
        k = nkeys if label in ("default", "flipped-numeric") else max(3, nkeys // 2)
        try:
            _run_config(h, k, nsteps, nlift if label == "default" else 0)
        except Exception:
            import traceback

            # a crash of the harness in one configuration must not hide what the others observe
            ctx.inconc(f"configuration {label} crashed: " + traceback.format_exc()[-800:])
        ctx.notes.setdefault("config_wall_s", {})[label] = round(time.time() - t0, 1)
        h.gf.close()
        h.gd.close()
    g0.close()

    ctx.require("model_arrays_compared", 100)
    ctx.require("reset_observations_compared", 3)
    ctx.require("formula_observation_compared", 10)
    ctx.require("formula_rev_observation_compared", 10)
    ctx.require("first_step_true_kinematics_compared", 3)
    ctx.require("reset_support_samples", 64)
    # Pusher (object on the table) and HumanoidStandup (lying: limbs within the clearance of each other and of
    # the floor) are practically never contact-free; their one-step dynamics are only compared informationally
    if env_name in ("Reacher", "Swimmer", "InvertedPendulum", "InvertedDoublePendulum", "Ant", "Humanoid",
                    "HalfCheetah", "Hopper", "Walker2d"):
        ctx.require("data_fidelity_contact_free_steps", 3)
    if env_name in ("Ant", "Humanoid", "HumanoidStandup") and not ctx.quick:
        ctx.require("contact_steps_structural", 3)
    if env_name in _TERMINATING and not ctx.quick:
        ctx.require("terminated_true_steps", 1)
        ctx.require("terminated_false_steps", 1)
