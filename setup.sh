#!/bin/bash
# Offline setup: install runtime-contract libraries beside the repository's interpreter
# (into git-ignored /verif/.deps). Idempotent; every ./check call repeats it cheaply.
set -e
HERE="$(cd "$(dirname "$0")" && pwd)"
DEPS="$HERE/.deps"
if [ ! -f "$DEPS/.ok" ]; then
  mkdir -p "$DEPS"
  PIP_NO_INDEX=1 /venv/bin/python -m pip install --quiet --no-index \
    --find-links /opt/veriftools/wheels --target "$DEPS" --upgrade \
    icontract deal jsonschema >"$DEPS/install.log" 2>&1 || {
      echo "setup: pip install failed, see $DEPS/install.log" >&2; cat "$DEPS/install.log" >&2; exit 3; }
  touch "$DEPS/.ok"
fi
mkdir -p "$HERE/.cache" "$HERE/evidence" "$HERE/replays"
exit 0
