"""Oracle helpers for C15 (float64 NumPy / SciPy only; nothing here imports lerax or jax)."""

from __future__ import annotations

import numpy as np

EPS32 = float(np.finfo(np.float32).eps)
ALPHA = 1e-6          # per-case significance of every statistical monitor
ALPHA_CHI = 1e-7      # chi-square tail is an approximation: one decade of margin


def note_max(ctx, name, value):
    """Keep the largest observed value of a statistic in the evidence notes."""
    try:
        v = float(value)
    except Exception:
        return
    if v != v:
        ctx.notes[name + "_nan"] = ctx.notes.get(name + "_nan", 0) + 1
        return
    if v > ctx.notes.get(name, -np.inf):
        ctx.notes[name] = v


def note_min(ctx, name, value):
    v = float(value)
    if v == v and v < ctx.notes.get(name, np.inf):
        ctx.notes[name] = v


def xlogx_sum(lp):
    """-sum exp(lp)*lp with 0*log 0 = 0, float64."""
    lp = np.asarray(lp, np.float64)
    fin = np.isfinite(lp)
    return float(-np.sum(np.exp(lp[fin]) * lp[fin]))


def log_softmax64(logits):
    l = np.asarray(logits, np.float64)
    m = np.max(l)
    z = l - m
    return z - np.log(np.sum(np.exp(z)))


def chi_square(counts, p_ref, min_expected=25.0):
    """Pearson chi-square of counts against reference probabilities, small cells pooled.

    Returns (stat, dof, pvalue, impossible) where impossible = number of draws that landed
    in a cell of reference probability exactly 0. dof 0 means nothing to test."""
    from scipy.stats import chi2

    counts = np.asarray(counts, np.float64)
    p = np.asarray(p_ref, np.float64)
    n = counts.sum()
    impossible = int(counts[p <= 0].sum())
    keep = p > 0
    c, e = counts[keep], p[keep] * n
    order = np.argsort(e)
    c, e = c[order], e[order]
    # pool the smallest cells until the pooled expected count reaches min_expected
    cs, es = np.cumsum(c), np.cumsum(e)
    k = int(np.searchsorted(es, min_expected, side="left")) + 1  # cells 0..k-1 pooled
    if k >= len(e):
        k = len(e)
    if k > 1:
        c = np.concatenate([[cs[k - 1]], c[k:]])
        e = np.concatenate([[es[k - 1]], e[k:]])
    if len(e) >= 2 and e[0] < min_expected:
        c = np.concatenate([[c[0] + c[1]], c[2:]])
        e = np.concatenate([[e[0] + e[1]], e[2:]])
    dof = len(e) - 1
    if dof < 1:
        return 0.0, 0, 1.0, impossible
    stat = float(np.sum((c - e) ** 2 / e))
    return stat, dof, float(chi2.sf(stat, dof)), impossible


def binom_two_sided(k, n, p):
    """Exact two-sided binomial tail probability (doubling the smaller tail)."""
    from scipy.stats import binom

    if p <= 0.0:
        return 1.0 if k == 0 else 0.0
    if p >= 1.0:
        return 1.0 if k == n else 0.0
    lo = binom.cdf(k, n, p)
    hi = binom.sf(k - 1, n, p)
    return float(min(1.0, 2.0 * min(lo, hi)))


def ks_against_cdf(u):
    """Two-sided KS statistic and exact p-value of values u = F(sample) against U(0,1)."""
    from scipy.stats import kstwo

    u = np.sort(np.asarray(u, np.float64))
    n = len(u)
    i = np.arange(1, n + 1)
    d = float(max(np.max(i / n - u), np.max(u - (i - 1) / n)))
    return d, float(kstwo.sf(d, n))


def cumtrapz(g, h):
    """Cumulative trapezoid of samples g on a uniform grid of spacing h, starting at 0."""
    g = np.asarray(g, np.float64)
    out = np.zeros_like(g)
    out[1:] = np.cumsum((g[1:] + g[:-1]) * 0.5 * h)
    return out


def trapz(g, h):
    g = np.asarray(g, np.float64)
    return float((g.sum() - 0.5 * (g[0] + g[-1])) * h)


def sigmoid64(x):
    x = np.asarray(x, np.float64)
    return 0.5 * (1.0 + np.tanh(0.5 * x))


def logit64(u):
    u = np.asarray(u, np.float64)
    with np.errstate(divide="ignore", invalid="ignore"):
        return np.log(u) - np.log1p(-u)


def normal_logpdf64(x, loc, scale):
    z = (np.asarray(x, np.float64) - loc) / scale
    return -0.5 * z * z - np.log(scale) - 0.5 * np.log(2 * np.pi)


def prob_exp_mismatch(pr, lp, rtol=3e-5, atol=1e-7):
    """Largest excess of |prob - exp(log_prob)| over atol + rtol*(1+|lp|)*exp(lp); <=0 is fine.

    exp() of a float32 x has relative error about |x|*eps, hence the |lp| factor.
    NaN in either is reported as +inf."""
    pr = np.asarray(pr, np.float64).ravel()
    lp = np.asarray(lp, np.float64).ravel()
    if np.isnan(pr).any() or np.isnan(lp).any():
        return np.inf, int(np.argmax(np.isnan(pr) | np.isnan(lp)))
    with np.errstate(over="ignore"):
        e = np.exp(lp)
    big = ~np.isfinite(e)
    exc = np.abs(pr - np.where(big, 0, e)) - (atol + rtol * (1 + np.abs(np.where(np.isfinite(lp), lp, 0))) * np.where(big, 0, e))
    exc = np.where(big, np.where(np.isfinite(pr), np.inf, -1.0), exc)
    i = int(np.argmax(exc))
    return float(exc[i]), i


def squashed_atoms(samples, loc, sc, lo, hi, alpha=ALPHA, ulps=4.0):
    """Point masses in samples of lo + (hi-lo)*sigmoid(Normal(loc, sc)) computed in float32.

    For every value that occurs at least 4 times, the probability that a draw lands within `ulps` float32
    steps (at the scale the arithmetic runs at: max(|lo|, |hi|, |v|), and of the pre-image at its own scale) of
    that value is computed from the Gaussian CDF in float64; the observed count is judged by the exact
    binomial tail with a Bonferroni factor. Saturation at the bounds is part of the cell of the bound value
    and therefore legitimate. Returns (worst, n_values_judged): worst = None or a dict describing the atom."""
    from scipy.stats import binom, norm

    x = np.asarray(samples, np.float64).ravel()
    n = len(x)
    vals, counts = np.unique(x, return_counts=True)
    sel = counts >= 4
    vals, counts = vals[sel], counts[sel]
    if not len(vals):
        return None, 0
    loc, sc, lo, hi = float(loc), float(sc), float(lo), float(hi)
    w = hi - lo
    dy = ulps * EPS32 * np.maximum(np.maximum(abs(lo), abs(hi)), np.abs(vals))
    ua, ub = (vals - dy - lo) / w, (vals + dy - lo) / w
    with np.errstate(divide="ignore", invalid="ignore"):
        xa = np.where(ua <= 0, -np.inf, np.where(ua >= 1, np.inf, np.log(np.clip(ua, 1e-300, 1)) - np.log1p(-np.clip(ua, 0, 1 - 1e-17))))
        xb = np.where(ub >= 1, np.inf, np.where(ub <= 0, -np.inf, np.log(np.clip(ub, 1e-300, 1)) - np.log1p(-np.clip(ub, 0, 1 - 1e-17))))
        # the pre-image itself is a float32 number loc + sc*z
        xa = np.where(np.isfinite(xa), xa - ulps * EPS32 * (abs(loc) + np.abs(xa) + 1.0), xa)
        xb = np.where(np.isfinite(xb), xb + ulps * EPS32 * (abs(loc) + np.abs(xb) + 1.0), xb)
        za, zb = (xa - loc) / sc, (xb - loc) / sc
        pcell = np.where(za < 0, norm.cdf(zb) - norm.cdf(za), norm.sf(za) - norm.sf(zb))
    pcell = np.clip(np.nan_to_num(pcell, nan=1.0), 0.0, 1.0)
    pv = binom.sf(counts - 1, n, pcell)
    j = int(np.argmin(pv))
    worst = None
    # every draw defines a cell that could have collected repeats: Bonferroni over the n draws (not only over the
    # values that happened to repeat), and three more decades because thousands of laws are judged per run
    if pv[j] * n < alpha * 1e-3:
        worst = {"value": float(vals[j]), "count": int(counts[j]), "draws": n, "cell_probability": float(pcell[j]),
                 "p": float(pv[j]), "preimage": [float(xa[j]), float(xb[j])]}
    return worst, int(len(vals))
