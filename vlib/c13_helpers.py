"""Harness-defined base environment for C13 (wrappers / adapters).

ProbeEnv is a small stochastic linear-ish system whose every functional component depends on
*all* of its inputs (state, action as given, next state, key), and whose state remembers the
action that `transition` received.  A wrapper that forwards a different action, a different key,
or a different state to any one component therefore changes an observable output.
ProbeEnv deliberately leaves its own observation box (hostile input for ClipObservation).
"""

from __future__ import annotations

from collections import OrderedDict
from typing import ClassVar

import equinox as eqx
import jax
import numpy as np
from jax import numpy as jnp
from jax import random as jr

from lerax.env import AbstractEnv, AbstractEnvState
from lerax.space import Box, Dict

PROBE_RENDERER = ["probe-renderer-sentinel"]


class PState(AbstractEnvState):
    x: jax.Array  # (k,) float32
    t: jax.Array  # int32 steps in this episode
    a_tr: jax.Array  # flat action that `transition` received (nan right after `initial`)


class ProbeEnv(AbstractEnv):
    name: ClassVar[str] = "ProbeEnv"

    action_space: object
    observation_space: object
    A: jax.Array
    Bm: jax.Array
    w: jax.Array
    u: jax.Array
    v: jax.Array
    thr: jax.Array
    t_inner: jax.Array
    spread: jax.Array
    obs_noise: jax.Array
    obs_kind: str = eqx.field(static=True)
    k: int = eqx.field(static=True)
    d: int = eqx.field(static=True)
    act_shape: tuple = eqx.field(static=True)

    def __init__(self, rng, *, act_shape=(2,), obs_kind="box", alow=None, ahigh=None, olow=None,
                 ohigh=None, t_inner=0, thr=2.0, spread=2.5, obs_noise=0.05):
        self.k = 6
        self.act_shape = tuple(act_shape)
        self.d = int(np.prod(self.act_shape)) if self.act_shape else 1
        self.obs_kind = obs_kind
        self.A = jnp.asarray(rng.normal(0, 0.6, size=(self.k, self.k)), jnp.float32)
        self.Bm = jnp.asarray(rng.normal(0, 0.7, size=(self.k, self.d)), jnp.float32)
        self.w = jnp.asarray(rng.normal(0, 0.5, size=self.k), jnp.float32)
        sign = np.where(rng.random(self.d) < 0.5, -1.0, 1.0)
        self.u = jnp.asarray(sign * rng.uniform(0.5, 1.5, size=self.d), jnp.float32)
        self.v = jnp.asarray(rng.normal(0, 0.5, size=self.k), jnp.float32)
        self.thr = jnp.asarray(thr, jnp.float32)
        self.t_inner = jnp.asarray(t_inner, jnp.int32)
        self.spread = jnp.asarray(spread, jnp.float32)
        self.obs_noise = jnp.asarray(obs_noise, jnp.float32)
        if alow is None:
            alow = -rng.uniform(0.5, 2.0, size=self.act_shape)
            ahigh = rng.uniform(0.5, 2.0, size=self.act_shape)
        self.action_space = Box(np.asarray(alow, np.float32), np.asarray(ahigh, np.float32))
        if olow is None:
            olow = -rng.uniform(0.5, 1.5, size=self.k)
            ohigh = rng.uniform(0.5, 1.5, size=self.k)
        olow, ohigh = np.asarray(olow, np.float32), np.asarray(ohigh, np.float32)
        if obs_kind == "box":
            self.observation_space = Box(olow, ohigh)
        elif obs_kind == "box2d":
            self.observation_space = Box(olow.reshape(2, 3), ohigh.reshape(2, 3))
        elif obs_kind == "dict":
            self.observation_space = Dict(OrderedDict(
                p=Box(olow[:2], ohigh[:2]), q=Box(olow[2:].reshape(2, 2), ohigh[2:].reshape(2, 2))))
        else:
            raise ValueError(obs_kind)

    def _a(self, action):
        return jnp.asarray(action, jnp.float32).reshape(self.d)

    def initial(self, *, key):
        x = jr.uniform(key, (self.k,), minval=-1.0, maxval=1.0) * self.spread
        return PState(x.astype(jnp.float32), jnp.array(0, jnp.int32), jnp.full((self.d,), jnp.nan, jnp.float32))

    def action_mask(self, state, *, key):
        return None

    def transition(self, state, action, *, key):
        a = self._a(action)
        x = 2.0 * jnp.tanh(self.A @ state.x) + self.Bm @ a + 0.3 * jr.normal(key, (self.k,))
        return PState(x.astype(jnp.float32), state.t + 1, a)

    def observation(self, state, *, key):
        o = state.x + self.obs_noise * jr.normal(key, (self.k,))
        if self.obs_kind == "box":
            return o
        if self.obs_kind == "box2d":
            return o.reshape(2, 3)
        return OrderedDict(p=o[:2], q=o[2:].reshape(2, 2))

    def reward(self, state, action, next_state, *, key):
        return (self.w @ state.x + self.u @ self._a(action) + self.v @ next_state.x
                + 0.1 * jr.normal(key, ()))

    def terminal(self, state, *, key):
        return state.x[0] + jr.normal(key, ()) > self.thr

    def term_margin(self, state, *, key):
        return jnp.abs(state.x[0] + jr.normal(key, ()) - self.thr)

    def truncate(self, state):
        return (self.t_inner > 0) & (state.t >= self.t_inner)

    def state_info(self, state):
        return {"t": state.t, "x0": state.x[0]}

    def transition_info(self, state, action, next_state):
        return {"a": self._a(action), "dx": next_state.x - state.x}

    def default_renderer(self):
        return PROBE_RENDERER

    def render(self, state, renderer):
        renderer.append(("render", np.asarray(state.x).copy()))
