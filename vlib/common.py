"""Small shared helpers for the check modules."""

from __future__ import annotations

import hashlib

import equinox as eqx
import jax
import numpy as np
from jax import numpy as jnp


def setup_contracts():
    import icontract  # noqa: F401  (installed by setup.sh into /verif/.deps)

    return icontract


class PostBroken(Exception):
    pass


def f64(x):
    return np.asarray(x, dtype=np.float64)


def npt(tree):
    return jax.tree.map(lambda x: np.asarray(x) if isinstance(x, (jax.Array, np.ndarray)) else x, tree)


def inexact_leaves(tree):
    return [np.asarray(x) for x in jax.tree.leaves(eqx.filter(tree, eqx.is_inexact_array))]


def array_leaves(tree):
    return [np.asarray(x) for x in jax.tree.leaves(eqx.filter(tree, eqx.is_array))]


def leaves_equal(a, b):
    la, lb = array_leaves(a), array_leaves(b)
    if len(la) != len(lb):
        return False
    return all(x.shape == y.shape and np.array_equal(x, y, equal_nan=True) for x, y in zip(la, lb))


def leaves_maxdiff(a, b):
    la, lb = inexact_leaves(a), inexact_leaves(b)
    m = 0.0
    for x, y in zip(la, lb):
        if x.shape != y.shape:
            return float("inf")
        if x.size:
            fin = np.isfinite(x) & np.isfinite(y)
            if not np.array_equal(np.isfinite(x), np.isfinite(y)):
                return float("inf")
            if fin.any():
                m = max(m, float(np.max(np.abs(x[fin].astype(np.float64) - y[fin].astype(np.float64)))))
    return m


def tree_index(tree, i):
    return jax.tree.map(lambda x: x[i] if isinstance(x, (jax.Array, np.ndarray)) else x, tree)


def digest(*arrays):
    h = hashlib.sha1()
    for a in arrays:
        h.update(np.ascontiguousarray(np.asarray(a)).tobytes())
    return h.hexdigest()[:12]


def close(a, b, rtol=1e-4, atol=1e-5):
    a, b = f64(a), f64(b)
    if a.shape != b.shape:
        return False
    return bool(np.all(np.abs(a - b) <= atol + rtol * np.abs(b)))


def is_bool_scalar(x):
    return hasattr(x, "dtype") and x.dtype == jnp.bool_ and getattr(x, "shape", None) == ()
