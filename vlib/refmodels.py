"""float64 reference models written from the property statements (not from lerax)."""

from __future__ import annotations

import numpy as np


def gae_ref(r, v, d, last, gamma, lam):
    """A_t = delta_t + gamma*lam*(1-d_t)*A_{t+1}; delta_t = r_t + gamma*(1-d_t)*V_{t+1} - V_t."""
    r = np.asarray(r, np.float64)
    v = np.asarray(v, np.float64)
    d = np.asarray(d, bool)
    T = len(r)
    adv = np.zeros(T)
    bound = np.zeros(T)  # magnitude bound used for the float32 tolerance
    nxt, nb = 0.0, 0.0
    for t in reversed(range(T)):
        nv = float(last) if t == T - 1 else v[t + 1]
        nd = 0.0 if d[t] else 1.0
        delta = r[t] + gamma * nv * nd - v[t]
        nxt = delta + gamma * lam * nd * nxt
        nb = abs(r[t]) + gamma * abs(nv) * nd + abs(v[t]) + gamma * lam * nd * nb
        adv[t] = nxt
        bound[t] = nb
    return adv, adv + v, bound


def mc_return_ref(r, v, d, last, gamma):
    """Discounted Monte-Carlo return to the episode end / bootstrap (lambda = 1)."""
    r = np.asarray(r, np.float64)
    T = len(r)
    out = np.zeros(T)
    nxt = float(last)
    for t in reversed(range(T)):
        nxt = r[t] + (0.0 if d[t] else gamma * nxt)
        out[t] = nxt
    return out


class RingModel:
    """Capacity-C ring: holds exactly the most recent min(n, C) insertion ids."""

    def __init__(self, cap):
        self.cap, self.n = cap, 0

    def add(self):
        self.n += 1

    def stored(self):
        return set(range(max(0, self.n - self.cap), self.n))


class EMAModel:
    """Episode statistics from the property text: at every episode end blend the
    finished episode's sum of rewards / number of steps with factor alpha."""

    def __init__(self, alpha):
        self.alpha = alpha
        self.ret = 0.0
        self.length = 0
        self.avg_ret = 0.0
        self.avg_len = 0.0
        self.episodes = 0

    def step(self, reward, done):
        self.ret += float(reward)
        self.length += 1
        if done:
            self.last = (self.ret, self.length)
            self.episodes += 1
            self.ret, self.length = 0.0, 0
            return self.last
        return None
