"""Pure NumPy / Python reference model of lerax spaces for the C14 check.

Nothing in this file calls lerax code to decide a verdict.  A space is described by a plain
dict ("model") that is generated first; the lerax space is then *built from* the model, so the
model is independent of what lerax stores.

model kinds
  {"k": "discrete", "n": int}
  {"k": "box", "low": f32 ndarray, "high": f32 ndarray}          (shape = low.shape)
  {"k": "multibinary", "shape": tuple}
  {"k": "multidiscrete", "nvec": tuple}
  {"k": "tuple", "items": [model, ...]}
  {"k": "dict", "items": [(key, model), ...]}                    (declared order)
"""

from __future__ import annotations

from collections import OrderedDict

import numpy as np

LEAF = ("discrete", "box", "multibinary", "multidiscrete")
F32MAX = np.float32(np.finfo(np.float32).max)
F32TINY = np.float32(np.finfo(np.float32).tiny)  # smallest normal
INT32MAX = 2**31 - 1


# ------------------------------------------------------------------ descriptions
def mrepr(m, depth=0):
    k = m["k"]
    if k == "discrete":
        return f"Discrete({m['n']})"
    if k == "box":
        lo, hi = m["low"], m["high"]
        if lo.size <= 4:
            return f"Box({lo.tolist()},{hi.tolist()})"
        import hashlib

        h = hashlib.sha1(lo.tobytes() + hi.tobytes()).hexdigest()[:8]
        return f"Box(shape={lo.shape},#{h})"
    if k == "multibinary":
        return f"MultiBinary({m['shape']})"
    if k == "multidiscrete":
        return f"MultiDiscrete({m['nvec']})"
    if k == "tuple":
        return "Tuple(" + ",".join(mrepr(s, depth + 1) for s in m["items"]) + ")"
    return "Dict(" + ",".join(f"{key}:{mrepr(s, depth + 1)}" for key, s in m["items"]) + ")"


def xdesc(x):
    """Short, deterministic description of a candidate value."""
    import hashlib

    try:
        import jax

        if isinstance(x, jax.Array):
            x = np.asarray(x)
    except Exception:
        pass
    if isinstance(x, np.ndarray) or isinstance(x, np.generic):
        a = np.asarray(x)
        if a.size <= 6:
            return f"{a.dtype}{list(a.shape)}:{a.tolist()!r}"
        return f"{a.dtype}{list(a.shape)}:#{hashlib.sha1(np.ascontiguousarray(a).tobytes()).hexdigest()[:10]}"
    if isinstance(x, (OrderedDict, dict)):
        return type(x).__name__ + "{" + ",".join(f"{k}:{xdesc(v)}" for k, v in x.items()) + "}"
    if isinstance(x, (tuple, list)):
        return type(x).__name__ + "(" + ",".join(xdesc(v) for v in x) + ")"
    if isinstance(x, (bool, int, float, complex, str, bytes)) or x is None:
        return f"{type(x).__name__}:{x!r}"[:80]
    return f"<{type(x).__name__}>"


def model_shape(m):
    k = m["k"]
    if k == "discrete":
        return ()
    if k == "box":
        return tuple(m["low"].shape)
    if k == "multibinary":
        return tuple(m["shape"])
    if k == "multidiscrete":
        return (len(m["nvec"]),)
    return None


def has_kind(m, kind):
    if m["k"] == kind:
        return True
    if m["k"] == "tuple":
        return any(has_kind(s, kind) for s in m["items"])
    if m["k"] == "dict":
        return any(has_kind(s, kind) for _, s in m["items"])
    return False


def has_nd_multibinary(m):
    if m["k"] == "multibinary":
        return len(m["shape"]) > 1
    if m["k"] == "tuple":
        return any(has_nd_multibinary(s) for s in m["items"])
    if m["k"] == "dict":
        return any(has_nd_multibinary(s) for _, s in m["items"])
    return False


def depth_of(m):
    if m["k"] == "tuple":
        return 1 + max(depth_of(s) for s in m["items"])
    if m["k"] == "dict":
        return 1 + max([depth_of(s) for _, s in m["items"]] or [0])
    return 0


def copy_model(m):
    k = m["k"]
    if k == "box":
        return {"k": "box", "low": m["low"].copy(), "high": m["high"].copy()}
    if k == "tuple":
        return {"k": "tuple", "items": [copy_model(s) for s in m["items"]]}
    if k == "dict":
        return {"k": "dict", "items": [(key, copy_model(s)) for key, s in m["items"]]}
    return dict(m)


def models_equal(a, b, dict_order=True, signed_zero=False):
    """Structural equality of two models.  Box bounds compared numerically (so -0.0 == 0.0)
    unless signed_zero=True (bitwise)."""
    if a["k"] != b["k"]:
        return False
    k = a["k"]
    if k == "discrete":
        return int(a["n"]) == int(b["n"])
    if k == "box":
        if a["low"].shape != b["low"].shape:
            return False
        if signed_zero:
            return a["low"].tobytes() == b["low"].tobytes() and a["high"].tobytes() == b["high"].tobytes()
        return bool(np.array_equal(a["low"], b["low"]) and np.array_equal(a["high"], b["high"]))
    if k == "multibinary":
        return tuple(a["shape"]) == tuple(b["shape"])
    if k == "multidiscrete":
        return tuple(a["nvec"]) == tuple(b["nvec"])
    if k == "tuple":
        return len(a["items"]) == len(b["items"]) and all(
            models_equal(x, y, dict_order, signed_zero) for x, y in zip(a["items"], b["items"]))
    ia, ib = a["items"], b["items"]
    if len(ia) != len(ib):
        return False
    if not dict_order:
        ia, ib = sorted(ia, key=lambda t: t[0]), sorted(ib, key=lambda t: t[0])
    return all(ka == kb and models_equal(x, y, dict_order, signed_zero) for (ka, x), (kb, y) in zip(ia, ib))


def sort_dict_keys(m):
    if m["k"] == "tuple":
        return {"k": "tuple", "items": [sort_dict_keys(s) for s in m["items"]]}
    if m["k"] == "dict":
        return {"k": "dict", "items": sorted(((key, sort_dict_keys(s)) for key, s in m["items"]), key=lambda t: t[0])}
    return m


# ------------------------------------------------------------------ membership oracle
def np_view(x):
    """(ndarray, is_python_sequence) for numeric-like x, (None, False) for a foreign object."""
    seq = False
    if isinstance(x, (list, tuple)):
        seq = True
        try:
            a = np.asarray(x)
        except Exception:
            return None, seq
    elif isinstance(x, (bool, int, float, complex, np.generic, np.ndarray)):
        try:
            a = np.asarray(x)
        except Exception:
            return None, seq
    else:
        try:
            import jax

            if isinstance(x, jax.Array):
                a = np.asarray(x)
            else:
                return None, seq
        except Exception:
            return None, seq
    if a.dtype.kind not in "biufc":
        return None, seq
    return a, seq


def _has_subnormal(a):
    if a.dtype.kind != "f":
        return False
    f = a.astype(np.float32)
    with np.errstate(all="ignore"):
        return bool(np.any((f != 0) & (np.abs(f) < F32TINY)))


def member_leaf(m, x):
    """True / False / None (None = representation or value genuinely ambiguous, not asserted)."""
    a, seq = np_view(x)
    if a is None:
        return False
    if a.shape != model_shape(m):
        return False
    if a.dtype.kind == "c":
        return False if np.any(a.imag != 0) else None
    if a.dtype.kind == "f" and np.isnan(a).any():
        return False
    if _has_subnormal(a):
        return None  # XLA CPU flushes subnormals to zero: comparison outcome platform-defined
    k = m["k"]
    pyfloat, pyint = type(x) is float, type(x) is int
    af = a.astype(np.float64)
    if a.dtype.kind == "f" and a.dtype != np.float32:
        with np.errstate(all="ignore"):
            if not np.array_equal(a.astype(np.float32).astype(np.float64), af):
                return None  # not representable in float32 (x64 disabled): rounding decides
    if k == "box":
        lo, hi = m["low"].astype(np.float64), m["high"].astype(np.float64)
        if ((af < lo) | (af > hi)).any():
            return False
        if np.isinf(af).any():
            return None  # +-inf sitting on an infinite bound: IEEE says inside, reals say no
        if seq:
            return None
        if a.dtype == np.float32 or pyfloat:
            return True
        return None  # in-bounds ints / bools / float64 arrays: Gymnasium rejects, text accepts
    # integral kinds
    if np.isinf(af).any():
        return False
    if (af != np.floor(af)).any():
        return False
    if k == "discrete":
        ok = 0 <= af[()] < m["n"]
    elif k == "multidiscrete":
        ok = bool(np.all(af >= 0) and np.all(af < np.asarray(m["nvec"], np.float64)))
    else:
        ok = bool(np.all((af == 0) | (af == 1)))
    if not ok:
        return False
    if seq:
        return None
    if a.dtype.kind in "iu" or pyint:
        return True
    if a.dtype.kind == "b":
        return True if k == "multibinary" else None
    return None  # integral-valued floats: the text says "integral", Gymnasium wants ints


def and3(vals):
    vals = list(vals)
    if any(v is False for v in vals):
        return False
    if any(v is None for v in vals):
        return None
    return True


def member(m, x):
    k = m["k"]
    if k in LEAF:
        return member_leaf(m, x)
    if k == "tuple":
        if not isinstance(x, (tuple, list)):
            return False
        if len(x) != len(m["items"]):
            return False
        v = and3(member(s, xi) for s, xi in zip(m["items"], x))
        if v is True and not isinstance(x, tuple):
            return None  # list for a Tuple space
        return v
    # dict
    if not isinstance(x, dict):
        return False
    keys = [key for key, _ in m["items"]]
    try:
        if set(x.keys()) != set(keys) or len(x) != len(keys):
            return False
    except TypeError:
        return False
    v = and3(member(s, x[key]) for key, s in m["items"])
    if v is True:
        if not isinstance(x, OrderedDict):
            return None  # plain dict for a Dict space
        if list(x.keys()) != keys:
            return None  # same keys, other order
    return v


# ------------------------------------------------------------------ produced values (sample / canonical)
def box_dim_class(lo, hi):
    """Per element class of a Box dimension (float32 scalars)."""
    with np.errstate(all="ignore"):
        lf, hf = np.isfinite(lo), np.isfinite(hi)
        if not lf and not hf:
            return "unbounded"
        if lf != hf:
            return "half-bounded"
        if lo == hi:
            return "degenerate"
        if not np.isfinite(np.float32(hi) - np.float32(lo)):
            return "wide-range"
        if not np.isfinite(np.float32(hi) + np.float32(lo)):
            return "large-sum"
        return "bounded"


def box_classes(m):
    return sorted({box_dim_class(lo, hi) for lo, hi in zip(m["low"].ravel(), m["high"].ravel())})


def produced_problems(m, x, path=""):
    """List of (path, leaf_kind, problem) for a value the space itself produced.  A produced value must
    be a member in the unambiguous sense: right container type, right shape, natural dtype family,
    finite, within the inclusive bounds."""
    k = m["k"]
    if k == "tuple":
        if not isinstance(x, tuple) or len(x) != len(m["items"]):
            return [(path, "tuple", "wrong-structure")]
        out = []
        for i, (s, xi) in enumerate(zip(m["items"], x)):
            out += produced_problems(s, xi, f"{path}/{i}")
        return out
    if k == "dict":
        keys = [key for key, _ in m["items"]]
        if not isinstance(x, OrderedDict) or list(x.keys()) != keys:
            if isinstance(x, dict) and set(x.keys()) == set(keys):
                pass  # order / plain dict: not judged
            else:
                return [(path, "dict", "wrong-structure")]
        out = []
        for key, s in m["items"]:
            out += produced_problems(s, x[key], f"{path}/{key}")
        return out
    a, _ = np_view(x)
    if a is None:
        return [(path, k, "wrong-type")]
    if a.shape != model_shape(m):
        return [(path, k, "wrong-shape")]
    if k == "box":
        if a.dtype.kind != "f":
            return [(path, k, "wrong-dtype")]
        lo, hi = m["low"], m["high"]
        af = a.astype(np.float64)
        bad = np.isnan(af) | (af < lo.astype(np.float64)) | (af > hi.astype(np.float64))
        if bad.any():
            i = int(np.argmax(bad.ravel()))
            return [(path, k, "not-member-" + box_dim_class(lo.ravel()[i], hi.ravel()[i]))]
        nf = ~np.isfinite(af)
        if nf.any():
            i = int(np.argmax(nf.ravel()))
            return [(path, k, "nonfinite-" + box_dim_class(lo.ravel()[i], hi.ravel()[i]))]
        return []
    if k == "multibinary":
        if a.dtype.kind not in "biu":
            return [(path, k, "wrong-dtype")]
    elif a.dtype.kind not in "iu":
        return [(path, k, "wrong-dtype")]
    return [] if member_leaf(m, a) is True else [(path, k, "not-member")]


def values_equal(x, y):
    """Structural equality of two produced values (numpy level)."""
    if isinstance(x, dict):
        return isinstance(y, dict) and list(x.keys()) == list(y.keys()) and all(values_equal(x[k], y[k]) for k in x)
    if isinstance(x, (tuple, list)):
        return isinstance(y, (tuple, list)) and len(x) == len(y) and all(values_equal(a, b) for a, b in zip(x, y))
    a, b = np.asarray(x), np.asarray(y)
    return a.shape == b.shape and bool(np.array_equal(a, b))


def to_numpy(x):
    if isinstance(x, OrderedDict):
        return OrderedDict((k, to_numpy(v)) for k, v in x.items())
    if isinstance(x, dict):
        return {k: to_numpy(v) for k, v in x.items()}
    if isinstance(x, tuple):
        return tuple(to_numpy(v) for v in x)
    if isinstance(x, list):
        return [to_numpy(v) for v in x]
    try:
        return np.asarray(x)
    except Exception:
        return x


# ------------------------------------------------------------------ building the real spaces
def build(m, variant=0):
    """Build the lerax space from the model through the public constructors."""
    from jax import numpy as jnp
    from lerax.space import Box, Dict, Discrete, MultiBinary, MultiDiscrete, Tuple

    k = m["k"]
    if k == "discrete":
        return Discrete(int(m["n"]))
    if k == "box":
        lo, hi = m["low"], m["high"]
        uniform = lo.size > 0 and len(set(lo.ravel().tobytes()[i:i + 4] for i in range(0, lo.nbytes, 4))) == 1 \
            and len(set(hi.ravel().tobytes()[i:i + 4] for i in range(0, hi.nbytes, 4))) == 1
        v = variant % 4
        if v == 0 and uniform:
            return Box(float(lo.ravel()[0]), float(hi.ravel()[0]), shape=tuple(lo.shape))
        if v == 1:
            return Box(jnp.asarray(lo), jnp.asarray(hi))
        if v == 2:
            return Box(lo.astype(np.float64), hi.astype(np.float64), shape=tuple(lo.shape))
        if v == 3:
            return Box(lo.tolist(), hi.tolist())
        return Box(lo, hi)
    if k == "multibinary":
        sh = tuple(int(s) for s in m["shape"])
        if len(sh) == 1 and variant % 2 == 0:
            return MultiBinary(sh[0])
        return MultiBinary(sh)
    if k == "multidiscrete":
        return MultiDiscrete(tuple(int(n) for n in m["nvec"]))
    if k == "tuple":
        return Tuple(tuple(build(s, variant + i) for i, s in enumerate(m["items"])))
    items = [(key, build(s, variant + i)) for i, (key, s) in enumerate(m["items"])]
    if variant % 2 == 0:
        return Dict(dict(items))
    return Dict(OrderedDict(items))


def extract(space):
    """Read the structure of a real lerax space back into a model (attribute reads only)."""
    name = type(space).__name__
    if name == "Discrete":
        return {"k": "discrete", "n": int(space.n)}
    if name == "Box":
        return {"k": "box", "low": np.asarray(space.low, np.float32), "high": np.asarray(space.high, np.float32)}
    if name == "MultiBinary":
        return {"k": "multibinary", "shape": tuple(int(s) for s in space.n)}
    if name == "MultiDiscrete":
        return {"k": "multidiscrete", "nvec": tuple(int(n) for n in space.nvec)}
    if name == "Tuple":
        return {"k": "tuple", "items": [extract(s) for s in space.spaces]}
    if name == "Dict":
        return {"k": "dict", "items": [(key, extract(s)) for key, s in space.spaces.items()]}
    raise TypeError(name)


def build_gym(m, ordered=False):
    """Hand-built Gymnasium counterpart of the model (reference library)."""
    import gymnasium as gym

    k = m["k"]
    if k == "discrete":
        return gym.spaces.Discrete(int(m["n"]))
    if k == "box":
        return gym.spaces.Box(low=m["low"].copy(), high=m["high"].copy(), shape=tuple(m["low"].shape), dtype=np.float32)
    if k == "multibinary":
        sh = tuple(m["shape"])
        return gym.spaces.MultiBinary(sh[0] if len(sh) == 1 else sh)
    if k == "multidiscrete":
        return gym.spaces.MultiDiscrete(list(m["nvec"]))
    if k == "tuple":
        return gym.spaces.Tuple(tuple(build_gym(s, ordered) for s in m["items"]))
    items = [(key, build_gym(s, ordered)) for key, s in m["items"]]
    return gym.spaces.Dict(OrderedDict(items) if ordered else dict(items))


def extract_gym(g):
    import gymnasium as gym

    if isinstance(g, gym.spaces.Discrete):
        return {"k": "discrete", "n": int(g.n)}
    if isinstance(g, gym.spaces.Box):
        return {"k": "box", "low": np.asarray(g.low, np.float32), "high": np.asarray(g.high, np.float32)}
    if isinstance(g, gym.spaces.MultiBinary):
        n = g.n
        return {"k": "multibinary", "shape": tuple(int(s) for s in n) if isinstance(n, (tuple, list, np.ndarray)) else (int(n),)}
    if isinstance(g, gym.spaces.MultiDiscrete):
        return {"k": "multidiscrete", "nvec": tuple(int(n) for n in np.asarray(g.nvec).ravel())}
    if isinstance(g, gym.spaces.Tuple):
        return {"k": "tuple", "items": [extract_gym(s) for s in g.spaces]}
    if isinstance(g, gym.spaces.Dict):
        return {"k": "dict", "items": [(key, extract_gym(s)) for key, s in g.spaces.items()]}
    raise TypeError(type(g))


# ------------------------------------------------------------------ model generators
BOX_SHAPES = [(), (1,), (2,), (3,), (5,), (2, 3), (3, 1), (2, 1, 2), (7,)]
BOX_CLASSES = ["bounded", "bounded", "unbounded", "lower", "upper", "mixed", "degenerate", "wide", "large",
               "int", "small", "signed-zero"]


def _f32(x):
    return np.asarray(x, dtype=np.float32)


def gen_box(rng, shape=None, cls=None):
    if shape is None:
        shape = BOX_SHAPES[int(rng.integers(len(BOX_SHAPES)))]
    if cls is None:
        cls = BOX_CLASSES[int(rng.integers(len(BOX_CLASSES)))]
    size = int(np.prod(shape, dtype=int))
    per_elem = bool(rng.random() < 0.6)
    nn = size if per_elem else 1

    def bounded(n):
        c = rng.normal(0, 1, n) * 10 ** rng.uniform(-2, 3)
        w = 10 ** rng.uniform(-3, 3, n)
        return c - w, c + w

    if cls == "bounded":
        lo, hi = bounded(nn)
    elif cls == "unbounded":
        lo, hi = np.full(nn, -np.inf), np.full(nn, np.inf)
    elif cls == "lower":
        lo, hi = bounded(nn)[0], np.full(nn, np.inf)
    elif cls == "upper":
        lo, hi = np.full(nn, -np.inf), bounded(nn)[1]
    elif cls == "degenerate":
        lo = bounded(nn)[0]
        hi = lo.copy()
    elif cls == "wide":
        lo = -rng.choice([float(F32MAX), 3e38, 2e38], nn)
        hi = rng.choice([float(F32MAX), 3e38, 2e38], nn)
    elif cls == "large":
        s = rng.choice([-1.0, 1.0])
        a = rng.uniform(1.8e38, 2.4e38, nn)
        b = rng.uniform(2.6e38, 3.3e38, nn)
        lo, hi = (a, b) if s > 0 else (-b, -a)
    elif cls == "int":
        lo = rng.integers(-5, 3, nn).astype(float)
        hi = lo + rng.integers(1, 256, nn)
    elif cls == "small":
        lo = rng.uniform(-1, 1, nn) * 1e-30
        hi = lo + rng.uniform(1, 10, nn) * 1e-30
    elif cls == "signed-zero":
        lo = np.where(rng.random(nn) < 0.5, -0.0, 0.0)
        hi = rng.uniform(0.5, 2, nn)
        if rng.random() < 0.3:
            lo, hi = -rng.uniform(0.5, 2, nn), np.where(rng.random(nn) < 0.5, -0.0, 0.0)
    else:  # mixed
        nn = size
        lo, hi = bounded(nn)
        kind = rng.integers(0, 5, nn)
        lo = np.where((kind == 1) | (kind == 3), -np.inf, lo)
        hi = np.where((kind == 1) | (kind == 2), np.inf, hi)
        hi = np.where(kind == 4, lo, hi)
        hi = np.where((kind == 4) & ~np.isfinite(lo), np.inf, hi)
    lo, hi = _f32(lo), _f32(hi)
    lo, hi = np.minimum(lo, hi), np.maximum(lo, hi)
    # keep bounds out of the subnormal range (flush-to-zero makes them ambiguous)
    with np.errstate(all="ignore"):
        lo = np.where((lo != 0) & (np.abs(lo) < F32TINY), np.float32(0), lo)
        hi = np.where((hi != 0) & (np.abs(hi) < F32TINY), np.float32(0), hi)
    lo = np.broadcast_to(lo, (size,)).reshape(shape).astype(np.float32).copy()
    hi = np.broadcast_to(hi, (size,)).reshape(shape).astype(np.float32).copy()
    return {"k": "box", "low": lo, "high": hi}


def gen_discrete(rng, big=False):
    pool = [1, 2, 3, 4, 5, 7, 17, 100, 256, 1000]
    if big:
        pool = pool + [2**24 + 3, 2**31 - 1, 65536]
    if rng.random() < 0.3:
        return {"k": "discrete", "n": int(rng.integers(1, 300))}
    return {"k": "discrete", "n": int(pool[int(rng.integers(len(pool)))])}


MB_SHAPES = [(1,), (2,), (3,), (8,), (2, 3), (3, 1), (1, 1), (2, 2, 2), (4, 2), (1, 5)]


def gen_multibinary(rng, nd=None):
    shapes = MB_SHAPES if nd is None else [s for s in MB_SHAPES if (len(s) > 1) == nd]
    return {"k": "multibinary", "shape": shapes[int(rng.integers(len(shapes)))]}


def gen_multidiscrete(rng):
    pool = [(3,), (2, 5), (1, 1, 7), (4, 4, 4, 4), (1000, 2), (1,), (2, 2), (5, 3, 2)]
    if rng.random() < 0.4:
        k = int(rng.integers(1, 6))
        return {"k": "multidiscrete", "nvec": tuple(int(v) for v in rng.integers(1, 12, k))}
    return {"k": "multidiscrete", "nvec": pool[int(rng.integers(len(pool)))]}


def gen_leaf(rng, kinds=LEAF, nd_mb=None, tame=False):
    k = kinds[int(rng.integers(len(kinds)))]
    if k == "discrete":
        return gen_discrete(rng)
    if k == "box":
        if tame:
            return gen_box(rng, cls=["bounded", "int", "unbounded", "lower", "mixed"][int(rng.integers(5))])
        return gen_box(rng)
    if k == "multibinary":
        return gen_multibinary(rng, nd=nd_mb)
    return gen_multidiscrete(rng)


KEY_POOL = ["a", "b", "c", "z1", "A", "_x", "10", "2", "obs", "pos", "vel", "B", "aa", "Zed"]


def gen_nested(rng, depth, nd_mb=None, kinds=LEAF, tame=False, root=None):
    """Random nested space model with containers down to `depth` levels."""
    if depth <= 0 or (root is None and rng.random() < 0.25):
        return gen_leaf(rng, kinds, nd_mb, tame)
    kind = root or ("tuple" if rng.random() < 0.5 else "dict")
    n = int(rng.integers(1, 5))
    subs = [gen_nested(rng, depth - 1, nd_mb, kinds, tame) for _ in range(n)]
    if kind == "tuple":
        return {"k": "tuple", "items": subs}
    keys = [KEY_POOL[i] for i in rng.permutation(len(KEY_POOL))[:n]]
    return {"k": "dict", "items": list(zip(keys, subs))}


# ------------------------------------------------------------------ member generation from the model
def gen_member(rng, m, mode="random"):
    """A clean-representation member built from the model (numpy level).
    mode: random | low | high (boundary members)."""
    k = m["k"]
    if k == "discrete":
        n = m["n"]
        v = 0 if mode == "low" else n - 1 if mode == "high" else int(rng.integers(0, n))
        return np.asarray(v, dtype=np.int32)
    if k == "multidiscrete":
        nv = np.asarray(m["nvec"])
        if mode == "low":
            return np.zeros(len(nv), np.int32)
        if mode == "high":
            return (nv - 1).astype(np.int32)
        return rng.integers(0, nv).astype(np.int32)
    if k == "multibinary":
        sh = m["shape"]
        if mode == "low":
            return np.zeros(sh, bool)
        if mode == "high":
            return np.ones(sh, bool)
        return rng.random(sh) < 0.5
    if k == "box":
        lo, hi = m["low"].astype(np.float64), m["high"].astype(np.float64)
        lf, hf = np.isfinite(lo), np.isfinite(hi)
        u = rng.random(lo.shape)
        e = rng.exponential(1.0, lo.shape) * 10 ** rng.uniform(-2, 2)
        with np.errstate(all="ignore"):
            mid = lo / 2 + hi / 2
            inner = lo * (1 - u) + hi * u
        x = np.where(lf & hf, inner, np.where(lf, lo + e, np.where(hf, hi - e, rng.normal(0, 10, lo.shape))))
        if mode == "low":
            x = np.where(lf, lo, x)
        elif mode == "high":
            x = np.where(hf, hi, x)
        elif mode == "mixed":
            pick = rng.integers(0, 3, lo.shape)
            x = np.where((pick == 0) & lf, lo, np.where((pick == 1) & hf, hi, x))
        with np.errstate(all="ignore"):
            x = x.astype(np.float32)
            # float32 rounding of an interior point can leave the interval: clip in float32
            x = np.where(lf, np.maximum(x, m["low"]), x)
            x = np.where(hf, np.minimum(x, m["high"]), x)
            x = np.where(np.isfinite(x), x, np.where(lf, m["low"], np.where(hf, m["high"], np.float32(0))))
            x = np.where((x != 0) & (np.abs(x) < F32TINY), np.where(lf & hf, m["low"], np.float32(0)), x)
            # a flushed zero may be outside: fall back to a bound
            bad = (x < m["low"]) | (x > m["high"])
            x = np.where(bad, np.where(lf, m["low"], m["high"]), x)
        del mid
        return x.astype(np.float32).reshape(lo.shape)
    if k == "tuple":
        return tuple(gen_member(rng, s, mode) for s in m["items"])
    return OrderedDict((key, gen_member(rng, s, mode)) for key, s in m["items"])


def leaf_paths(m, path=()):
    if m["k"] == "tuple":
        out = []
        for i, s in enumerate(m["items"]):
            out += leaf_paths(s, path + (i,))
        return out
    if m["k"] == "dict":
        out = []
        for i, (_, s) in enumerate(m["items"]):
            out += leaf_paths(s, path + (i,))
        return out
    return [path]


def node_paths(m, path=()):
    out = [path]
    if m["k"] == "tuple":
        for i, s in enumerate(m["items"]):
            out += node_paths(s, path + (i,))
    elif m["k"] == "dict":
        for i, (_, s) in enumerate(m["items"]):
            out += node_paths(s, path + (i,))
    return out


def get_node(m, path):
    for i in path:
        m = m["items"][i] if m["k"] == "tuple" else m["items"][i][1]
    return m


def replace_node(m, path, new):
    if not path:
        return new
    i = path[0]
    if m["k"] == "tuple":
        items = list(m["items"])
        items[i] = replace_node(items[i], path[1:], new)
        return {"k": "tuple", "items": items}
    items = list(m["items"])
    items[i] = (items[i][0], replace_node(items[i][1], path[1:], new))
    return {"k": "dict", "items": items}


def get_value(m, x, path):
    for i in path:
        if m["k"] == "tuple":
            x, m = x[i], m["items"][i]
        else:
            key, sub = m["items"][i]
            x, m = x[key], sub
    return x


def set_value(m, x, path, new):
    if not path:
        return new
    i = path[0]
    if m["k"] == "tuple":
        lst = list(x)
        lst[i] = set_value(m["items"][i], x[i], path[1:], new)
        return tuple(lst)
    key, sub = m["items"][i]
    out = OrderedDict(x)
    out[key] = set_value(sub, x[key], path[1:], new)
    return out


def sub_space(space, m, path):
    for i in path:
        if m["k"] == "tuple":
            space, m = space.spaces[i], m["items"][i]
        else:
            key, sub = m["items"][i]
            space, m = space.spaces[key], sub
    return space
