"""Runner: ./check <ID> --tier quick|thorough [--replay f] [--unit name]

Parent mode fans the property's units out to subprocesses (never multiprocessing.Pool),
merges what the monitors observed, matches violations against known_findings.json by
mechanism key, writes evidence/<ID>.json and replay files, and exits three-valued:
0 held on what was observed, 1 violated, 2 inconclusive.
"""

from __future__ import annotations

import argparse
import hashlib
import importlib
import json
import os
import subprocess
import sys
import tempfile
import time
import traceback
from concurrent.futures import ThreadPoolExecutor
from pathlib import Path

ROOT = Path(__file__).resolve().parent.parent
LEVEL = "exploration"


def _load(pid: str):
    return importlib.import_module(f"checks.{pid.lower()}")


def _jsonable(x, depth=0):
    import numpy as np

    if depth > 6:
        return str(x)[:200]
    if isinstance(x, dict):
        return {str(k): _jsonable(v, depth + 1) for k, v in x.items()}
    if isinstance(x, (list, tuple)):
        return [_jsonable(v, depth + 1) for v in x[:64]]
    if isinstance(x, (str, bool, int)) or x is None:
        return x
    if isinstance(x, float):
        return x if x == x and abs(x) != float("inf") else repr(x)
    if isinstance(x, np.generic):
        return _jsonable(x.item(), depth + 1)
    if hasattr(x, "shape") and hasattr(x, "dtype"):
        a = np.asarray(x)
        if a.size <= 64:
            return _jsonable(a.tolist(), depth + 1)
        return {"shape": list(a.shape), "head": _jsonable(a.ravel()[:16].tolist(), depth + 1)}
    return str(x)[:300]


class Ctx:
    """What a unit uses to report what its monitors observed."""

    def __init__(self, pid: str, unit: str, tier: str, seed: int):
        import numpy as np

        self.pid, self.unit, self.tier, self.seed = pid, unit, tier, seed
        h = int(hashlib.sha1(f"{pid}/{unit}".encode()).hexdigest()[:8], 16)
        self.rng = np.random.default_rng([seed, h])
        self._h = h
        self.evaluations = 0
        self.nontrivial: set[str] = set()
        self.samples: list = []
        self.violations: dict[str, dict] = {}
        self.monitors: dict[str, int] = {}
        self.inconclusive: list[str] = []
        self.classes: dict[str, int] = {}
        self.notes: dict = {}
        self.quick = tier == "quick"

    def key(self, i: int = 0):
        from jax import random as jr

        return jr.fold_in(jr.fold_in(jr.key(self.seed), self._h % (2**31)), i)

    def n(self, quick: int, thorough: int) -> int:
        return quick if self.quick else thorough

    def case(self, desc, nontrivial: bool = True, cls: str | None = None):
        """Record one execution that an oracle looked at."""
        self.evaluations += 1
        d = _jsonable(desc)
        if nontrivial:
            self.nontrivial.add(hashlib.sha1(json.dumps(d, sort_keys=True).encode()).hexdigest()[:16])
        if cls:
            self.classes[cls] = self.classes.get(cls, 0) + 1
        if len(self.samples) < 3 and (nontrivial or not self.samples):
            self.samples.append(d)

    def monitor(self, name: str, n: int = 1):
        self.monitors[name] = self.monitors.get(name, 0) + int(n)

    def violation(self, key: str, detail):
        v = self.violations.setdefault(key, {"count": 0, "first": None})
        v["count"] += 1
        if v["first"] is None:
            v["first"] = _jsonable(detail)

    def inconc(self, why: str):
        self.inconclusive.append(why)

    def require(self, monitor: str, minimum: int = 1):
        if self.monitors.get(monitor, 0) < minimum:
            self.inconc(f"monitor '{monitor}' observed {self.monitors.get(monitor, 0)} < {minimum}")

    def dump(self):
        return {
            "unit": self.unit,
            "evaluations": self.evaluations,
            "nontrivial": sorted(self.nontrivial),
            "samples": self.samples,
            "violations": self.violations,
            "monitors": self.monitors,
            "inconclusive": self.inconclusive,
            "classes": self.classes,
            "notes": _jsonable(self.notes),
        }


def _check_import():
    import lerax

    repo = os.environ.get("VERIF_REPO", "/repo")
    src = os.path.realpath(os.path.join(repo, "src"))
    f = os.path.realpath(lerax.__file__)
    if not f.startswith(src):
        raise RuntimeError(f"lerax imported from {f}, expected under {src}")


def run_unit_child(pid, unit, tier, seed, out):
    import faulthandler

    faulthandler.enable()
    t0 = time.time()
    ctx = Ctx(pid, unit, tier, seed)
    res = {"unit": unit}
    try:
        import jax

        cache = os.environ.get("VERIF_JAX_CACHE")
        if cache:
            jax.config.update("jax_compilation_cache_dir", cache)
            jax.config.update("jax_persistent_cache_min_compile_time_secs", 2.0)
        _check_import()
        mod = _load(pid)
        mod.run_unit(unit, ctx)
        res = ctx.dump()
    except Exception:
        res = ctx.dump()
        res["crash"] = traceback.format_exc()[-4000:]
    res["wall_s"] = time.time() - t0
    Path(out).write_text(json.dumps(res))


def _spawn(pid, unit, tier, seed, timeout, nunits):
    fd, out = tempfile.mkstemp(prefix=f"verif-{pid}-", suffix=".json")
    os.close(fd)
    env = dict(os.environ)
    repo = env.get("VERIF_REPO", "/repo")
    if os.path.realpath(repo) != "/repo":
        env["PYTHONPATH"] = f"{repo}/src:" + env.get("PYTHONPATH", "")
    if not env.get("VERIF_NO_JAX_CACHE"):
        env["VERIF_JAX_CACHE"] = str(ROOT / ".cache" / "jax")
    if nunits > 3:
        env.setdefault("XLA_FLAGS", "--xla_cpu_multi_thread_eigen=false intra_op_parallelism_threads=2")
        env.setdefault("OMP_NUM_THREADS", "2")
        env.setdefault("OPENBLAS_NUM_THREADS", "2")
    cmd = [sys.executable, "-X", "faulthandler", "-m", "vlib.run", pid, "--tier", tier,
           "--unit", unit, "--out", out, "--seed", str(seed)]
    t0 = time.time()
    try:
        p = subprocess.run(cmd, env=env, cwd=str(ROOT), timeout=timeout,
                           stdout=subprocess.PIPE, stderr=subprocess.STDOUT, text=True)
        txt = Path(out).read_text() if os.path.getsize(out) else ""
        if txt:
            res = json.loads(txt)
            if p.returncode != 0 and "crash" not in res:
                res["crash"] = f"exit {p.returncode}: " + p.stdout[-3000:]
        else:
            res = {"unit": unit, "crash": f"exit {p.returncode}, no result: " + p.stdout[-3000:]}
        res["stdout_tail"] = p.stdout[-1500:]
    except subprocess.TimeoutExpired as e:
        o = e.stdout or ""
        if isinstance(o, bytes):
            o = o.decode(errors="replace")
        res = {"unit": unit, "timeout": timeout, "stdout_tail": o[-1500:]}
    finally:
        try:
            os.unlink(out)
        except OSError:
            pass
    res.setdefault("wall_s", time.time() - t0)
    return res


def load_known():
    p = ROOT / "known_findings.json"
    if not p.exists():
        return {}, []
    d = json.loads(p.read_text())
    known = {}
    for f in d.get("findings", []):
        known[f"{f['property']}/{f['key']}"] = f
    return known, d.get("fixed", [])


def parent(pid, tier, seed, only_unit=None, replay=None):
    t0 = time.time()
    mod = _load(pid)
    units = mod.units(tier)
    if only_unit:
        units = [u for u in units if u["name"] == only_unit]
        if not units:
            units = [{"name": only_unit, "timeout": 3600}]
    nunits = len(units)
    workers = int(os.environ.get("VERIF_WORKERS", "16"))
    with ThreadPoolExecutor(max_workers=min(workers, max(1, nunits))) as ex:
        futs = [ex.submit(_spawn, pid, u["name"], tier, seed, u.get("timeout", 1500), nunits) for u in units]
        results = [f.result() for f in futs]

    known, _fixed = load_known()
    evaluations = 0
    nontrivial: set[str] = set()
    samples, monitors, classes, inconclusive, unit_info = [], {}, {}, [], []
    viol_all: dict[str, dict] = {}
    for r in results:
        name = r["unit"]
        evaluations += r.get("evaluations", 0)
        nontrivial |= {f"{name}:{h}" for h in r.get("nontrivial", [])}
        for s in r.get("samples", [])[:2]:
            if len(samples) < 8:
                samples.append({"unit": name, "case": s})
        for k, v in r.get("monitors", {}).items():
            monitors[k] = monitors.get(k, 0) + v
        for k, v in r.get("classes", {}).items():
            classes[k] = classes.get(k, 0) + v
        for w in r.get("inconclusive", []):
            inconclusive.append(f"{name}: {w}")
        if "timeout" in r:
            inconclusive.append(f"{name}: watchdog fired after {r['timeout']}s")
        if "crash" in r:
            # A crash of the harness or of lerax outside an oracle: not a verdict.
            inconclusive.append(f"{name}: crashed: {r['crash'][-1200:]}")
        for k, v in r.get("violations", {}).items():
            e = viol_all.setdefault(k, {"count": 0, "first": v["first"], "unit": name})
            e["count"] += v["count"]
        unit_info.append({"unit": name, "wall_s": round(r.get("wall_s", 0), 1),
                          "evaluations": r.get("evaluations", 0),
                          "nontrivial": len(r.get("nontrivial", [])),
                          "notes": r.get("notes", {})})

    new_viol, known_hits = {}, {}
    for k, v in viol_all.items():
        full = f"{pid}/{k}"
        (known_hits if full in known else new_viol)[k] = v

    floor = getattr(mod, "FLOOR", {"quick": 2, "thorough": 2}).get(tier, 2)
    if len(nontrivial) < max(2, floor) and not new_viol and not only_unit:
        inconclusive.append(f"only {len(nontrivial)} distinct non-trivial cases (floor {floor})")

    replays = []
    (ROOT / "replays").mkdir(exist_ok=True)
    for k, v in new_viol.items():
        rp = ROOT / "replays" / f"{pid}-{k.replace('/', '_')}-seed{seed}.json"
        rp.write_text(json.dumps({"property": pid, "key": k, "unit": v["unit"], "tier": tier,
                                  "seed": seed, "count": v["count"], "witness": v["first"]}, indent=1))
        replays.append(str(rp))

    wall = time.time() - t0
    ev = {
        "property_id": pid,
        "tier": tier,
        "seed": seed,
        "level": LEVEL,
        "coverage": {
            "evaluations": evaluations,
            "distinct_nontrivial": len(nontrivial),
            "rule": getattr(mod, "RULE", ""),
            "samples": samples or [{"note": "no case recorded"}],
            "case_classes": classes,
            "monitors": monitors,
            "units": unit_info,
            "inconclusive": inconclusive,
            "known_findings_hit": {k: {"count": v["count"], "witness": v["first"]} for k, v in known_hits.items()},
            "new_violations": {k: {"count": v["count"], "witness": v["first"]} for k, v in new_viol.items()},
            "verdict": "violated" if new_viol else ("inconclusive" if inconclusive else "held-on-observed"),
        },
        "assumptions": getattr(mod, "ASSUMPTIONS", []),
        "wall_s": round(wall, 2),
        "violations": len(new_viol),
    }
    foreign_tree = os.path.realpath(os.environ.get("VERIF_REPO", "/repo")) != "/repo"
    if foreign_tree:
        print(f"[{pid}] note: run against {os.environ.get('VERIF_REPO')} (not /repo): evidence file left untouched")
    if not only_unit and not replay and not foreign_tree:
        (ROOT / "evidence").mkdir(exist_ok=True)
        (ROOT / "evidence" / f"{pid}.json").write_text(json.dumps(ev, indent=1))
        try:
            import jsonschema

            schema = json.loads(Path("/root/.vp/EVIDENCE.schema.json").read_text())
            jsonschema.validate(ev, schema)
        except ImportError:
            pass
        except FileNotFoundError:
            pass
        except Exception as e:  # schema problem = our bug; say so loudly
            print(f"EVIDENCE-INVALID {pid}: {str(e)[:400]}")

    print(f"[{pid}] tier={tier} seed={seed} units={nunits} evaluations={evaluations} "
          f"distinct_nontrivial={len(nontrivial)} wall={wall:.1f}s")
    for k in sorted(monitors):
        print(f"  monitor {k}: {monitors[k]}")
    for k, v in known_hits.items():
        print(f"KNOWN-FINDING: property={pid} {k}: {known[pid + '/' + k].get('what', '')} (seen {v['count']}x)")
    for w in inconclusive:
        print(f"INCONCLUSIVE property={pid} {w[:1500]}")
    for (k, v), rp in zip(new_viol.items(), replays):
        print(f"  violation {k} x{v['count']}: {json.dumps(v['first'])[:600]}")
        print(f"VIOLATION property={pid} replay={rp}")
    if replay:
        return new_viol
    if new_viol:
        return 1
    if inconclusive:
        return 2
    return 0


def main():
    ap = argparse.ArgumentParser()
    ap.add_argument("pid")
    ap.add_argument("--tier", default=None)
    ap.add_argument("--seed", type=int, default=None)
    ap.add_argument("--unit")
    ap.add_argument("--out")
    ap.add_argument("--replay")
    a = ap.parse_args()
    pid = a.pid.upper()
    # explicit --tier wins; VERIF_TIER is used only when no --tier is given
    tier = a.tier or os.environ.get("VERIF_TIER") or "quick"
    if tier not in ("quick", "thorough"):
        tier = "quick"
    seed = a.seed if a.seed is not None else int(os.environ.get("VERIF_SEED", "0") or 0)
    if a.out:
        run_unit_child(pid, a.unit, tier, seed, a.out)
        return 0
    if a.replay:
        r = json.loads(Path(a.replay).read_text())
        nv = parent(r["property"], r["tier"], r["seed"], only_unit=r["unit"], replay=True)
        if r["key"] in nv:
            print(f"REPLAY reproduced {r['property']}/{r['key']}")
            return 1
        print(f"REPLAY did not reproduce {r['property']}/{r['key']}")
        return 0
    return parent(pid, tier, seed, only_unit=a.unit)


if __name__ == "__main__":
    sys.exit(main())
