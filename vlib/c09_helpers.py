"""Helpers for C09: id-encoded rollout buffers, a tagging stub policy and a recording optimiser.

Every per-sample leaf of a buffer built here encodes the unique sample id (and, for leaves with
feature axes, the position of each element inside the sample), so that an oracle in NumPy can
decode "which collected sample does this row / this element come from" for every leaf on its own.

Spec language (hashable nested tuples, so it can be a static field of the stub policy):
    ("leaf", kind, feat_shape)   kind in {"f32", "i32", "bits"}; element value = id * Q + pos,
                                 Q = prod(feat_shape), pos = C-order position inside the sample;
                                 "bits": feat_shape = (K,), element k = bit k of the id (bool)
    ("dict", ((name, spec), ...))
    ("tuple", (spec, ...))
    ("state", ((field, spec), ...))     -> a TagState eqx.Module (AbstractPolicyState)
    None
"""

from __future__ import annotations

from typing import Any, ClassVar

import equinox as eqx
import jax
import numpy as np
import optax
from jax import numpy as jnp

from lerax.policy import AbstractActorCriticPolicy, AbstractPolicyState
from lerax.space import Box, Discrete


# ------------------------------------------------------------------ encoding
def _q(shape):
    q = 1
    for s in shape:
        q *= int(s)
    return q


def enc_leaf(kind, shape, ids, as_numpy=False):
    ids = np.asarray(ids, dtype=np.int64)
    shape = tuple(shape)
    if kind == "bits":
        k = shape[0]
        out = ((ids[..., None] >> np.arange(k)) & 1).astype(bool)
    else:
        q = _q(shape)
        v = ids.reshape(ids.shape + (1,) * len(shape)) * q + np.arange(q, dtype=np.int64).reshape(shape)
        out = v.astype(np.float32 if kind == "f32" else np.int32)
    return out if as_numpy else jnp.asarray(out)


def dec_leaf(kind, shape, arr, batch_ndim):
    """NumPy oracle side. Returns (ids per sample-slot, intact per sample-slot).

    ids has the batch shape; intact says that *every* element of that slot decodes to the same id
    and sits at its own position (so a slot assembled from two samples, or with its feature axes
    scrambled, is not intact)."""
    a = np.asarray(arr)
    shape = tuple(shape)
    bshape = a.shape[:batch_ndim]
    if a.shape[batch_ndim:] != shape:
        return None, None
    if kind == "bits":
        k = shape[0]
        ids = (a.astype(np.int64) << np.arange(k)).sum(-1)
        return ids, np.ones(bshape, bool)
    q = _q(shape)
    fin = np.isfinite(a.astype(np.float64))
    v = np.where(fin, a, -1).astype(np.float64)
    exact = fin & (v == np.round(v)) & (v >= 0)
    vi = np.where(exact, v, 0).astype(np.int64)
    ids_e = vi // q
    pos_e = vi % q
    want_pos = np.arange(q, dtype=np.int64).reshape(shape)
    flat = (slice(None),) * batch_ndim + (0,) * len(shape)
    ids = ids_e[flat]
    same = (ids_e == ids.reshape(bshape + (1,) * len(shape))) & (pos_e == want_pos) & exact
    intact = same.reshape(bshape + (-1,)).all(-1) if len(shape) else same
    return ids, intact


class TagState(AbstractPolicyState):
    """Policy state with array fields (an eqx.Module inside the buffer)."""

    fields: dict


def encode(spec, ids, as_numpy=False):
    if spec is None:
        return None
    tag = spec[0]
    if tag == "leaf":
        return enc_leaf(spec[1], spec[2], ids, as_numpy)
    if tag == "dict":
        return {k: encode(s, ids, as_numpy) for k, s in spec[1]}
    if tag == "tuple":
        return tuple(encode(s, ids, as_numpy) for s in spec[1])
    if tag == "state":
        return TagState({k: encode(s, ids, as_numpy) for k, s in spec[1]})
    raise ValueError(spec)


def walk(spec, tree, path=""):
    """Yield (path, kind, feat_shape, array) for every leaf of the spec."""
    if spec is None:
        return
    tag = spec[0]
    if tag == "leaf":
        yield path, spec[1], tuple(spec[2]), tree
    elif tag == "dict":
        for k, s in spec[1]:
            yield from walk(s, tree[k], f"{path}.{k}")
    elif tag == "tuple":
        for i, s in enumerate(spec[1]):
            yield from walk(s, tree[i], f"{path}[{i}]")
    elif tag == "state":
        for k, s in spec[1]:
            yield from walk(s, tree.fields[k], f"{path}.{k}")
    else:
        raise ValueError(spec)


def n_leaves(spec):
    if spec is None:
        return 0
    if spec[0] == "leaf":
        return 1
    if spec[0] == "tuple":
        return sum(n_leaves(s) for s in spec[1])
    return sum(n_leaves(s) for _, s in spec[1])


# scalar fields of the buffer: value = f(id), all exactly representable in float32
def f_reward(i):
    return np.asarray(i, np.float64) * 1.0


def f_value(i):
    return np.asarray(i, np.float64) + 0.5


def f_return(i):
    return np.asarray(i, np.float64) + 0.25


def f_adv(i):
    i = np.asarray(i, np.int64)
    return (i + 1) * np.where(i % 2 == 0, 0.5, -0.5)


def f_logp(i):
    return -(np.asarray(i, np.float64) + 1.0) / 64.0


def f_done(i):
    return (np.asarray(i, np.int64) % 3) == 1


SCALARS = {"rewards": f_reward, "values": f_value, "returns": f_return, "advantages": f_adv,
           "log_probs": f_logp}


def make_buffer(shape, obs_spec, act_spec, state_spec, mask_spec, ids=None, numpy_leaves=False):
    """RolloutBuffer of the given batch shape; ids default to C-order arange over the shape."""
    from lerax.buffer import RolloutBuffer

    n = _q(shape)
    if ids is None:
        ids = np.arange(n, dtype=np.int64).reshape(shape)
    buf = RolloutBuffer(
        observations=encode(obs_spec, ids, numpy_leaves),
        actions=encode(act_spec, ids, numpy_leaves),
        rewards=jnp.asarray(f_reward(ids), jnp.float32),
        dones=jnp.asarray(f_done(ids)),
        log_probs=jnp.asarray(f_logp(ids), jnp.float32),
        values=jnp.asarray(f_value(ids), jnp.float32),
        states=encode(state_spec, ids, numpy_leaves),
        action_masks=encode(mask_spec, ids, numpy_leaves),
        returns=jnp.asarray(f_return(ids), jnp.float32),
        advantages=jnp.asarray(f_adv(ids), jnp.float32),
    )
    return buf, ids


def decode_buffer(buf, specs, batch_ndim):
    """Decode every per-sample leaf of a buffer. Returns list of (name, ids, intact) with ids of the
    batch shape, or (name, None, None) when the leaf does not have batch shape + feature shape."""
    obs_spec, act_spec, state_spec, mask_spec = specs
    out = []
    for root, spec, tree in (("observations", obs_spec, buf.observations), ("actions", act_spec, buf.actions),
                             ("states", state_spec, buf.states), ("action_masks", mask_spec, buf.action_masks)):
        if spec is None:
            continue
        for path, kind, shape, arr in walk(spec, tree, root):
            ids, ok = dec_leaf(kind, shape, arr, batch_ndim)
            out.append((path, ids, ok))
    for name, f in SCALARS.items():
        a = np.asarray(getattr(buf, name), np.float64)
        out.append((name, *_dec_scalar(name, a)))
    return out


def _dec_scalar(name, a):
    """Invert f(id) for the scalar fields (all injective on id >= 0)."""
    if name == "rewards":
        ids = a
    elif name == "values":
        ids = a - 0.5
    elif name == "returns":
        ids = a - 0.25
    elif name == "log_probs":
        ids = -a * 64.0 - 1.0
    elif name == "advantages":
        ids = np.abs(a) * 2.0 - 1.0
    else:
        raise ValueError(name)
    fin = np.isfinite(ids)
    r = np.where(fin, np.round(np.where(fin, ids, 0)), -1)
    ok = fin & (np.abs(np.where(fin, ids, 0) - r) < 1e-3) & (r >= 0)
    ids_i = np.where(ok, r, -1).astype(np.int64)
    if name == "advantages":
        ok = ok & np.isclose(a, f_adv(np.maximum(ids_i, 0)), rtol=0, atol=1e-3)
    return ids_i, ok


# ------------------------------------------------------------------ tagging stub policy
CH_VISIT, CH_VALUE, CH_LOGP, CH_MIS0 = 0, 1, 2, 3


def _leaf_mismatch(kind, shape, x, j):
    """jnp, one sample: 0.0 iff every element of x decodes to id j at its own position."""
    shape = tuple(shape)
    if kind == "bits":
        k = shape[0]
        got = jnp.sum(x.astype(jnp.int32) << jnp.arange(k, dtype=jnp.int32))
        return jnp.abs(got - j).astype(jnp.float32)
    q = _q(shape)
    xf = x.astype(jnp.float32)
    v = jnp.where(jnp.isfinite(xf), xf, -1.0)
    vi = jnp.round(v).astype(jnp.int32)
    ids = vi // q
    pos = vi % q
    want = jnp.arange(q, dtype=jnp.int32).reshape(shape)
    m = jnp.sum(jnp.abs(ids - j)) + jnp.sum(pos != want) + jnp.sum(jnp.abs(v - vi) > 1e-3)
    return m.astype(jnp.float32)


class TagPolicy(AbstractActorCriticPolicy):
    """Actor-critic stub whose only trainable array is `tab[n_ids, channels]`.

    evaluate_action(state, obs, action, mask) for a row whose *primary observation leaf* carries id j:
      value    = tab[j, 1]
      log_prob = tab[j, 2] + f_logp(j)                       (so the PPO ratio is 1 for an intact row)
      entropy  = tab[j, 0] + sum_c tab[j, 3 + c] * mismatch_c
    where mismatch_c >= 0 is zero iff leaf c of (observation, action, state, mask) decodes to j.
    With entropy coefficient ec and minibatch size B the loss gradient of one minibatch therefore is
      d/dtab[j,0]   = -ec/B * (#rows with observation id j)
      d/dtab[j,3+c] = -ec/B * sum of mismatch_c over those rows
      d/dtab[j,1]   =  vc/B * sum (tab[j,1] - return_row)
      d/dtab[j,2]   = -1/B  * sum advantage_row * ratio_row      (ratio inside the clip range)
    """

    name: ClassVar[str] = "TagPolicy"
    action_space: Any
    observation_space: Any
    tab: jax.Array
    lp_num: jax.Array  # int32: f_logp(j) * 64, not differentiated (integer array)
    specs: tuple = eqx.field(static=True)

    def __init__(self, n_ids, specs):
        self.action_space = Discrete(2)
        self.observation_space = Box(0.0, 1.0, shape=())
        self.specs = specs
        self.tab = jnp.zeros((n_ids, CH_MIS0 + self.n_mis(specs)), jnp.float32)
        self.lp_num = -(jnp.arange(n_ids, dtype=jnp.int32) + 1)

    @staticmethod
    def n_mis(specs):
        return sum(n_leaves(s) for s in specs)

    @staticmethod
    def channel_names(specs):
        names = []
        for root, spec in zip(("observations", "actions", "states", "action_masks"), specs):
            if spec is None:
                continue
            # walk needs a tree only for indexing; use the spec itself as a stand-in
            names += [p for p, *_ in _walk_names(spec, root)]
        return names

    def reset(self, *, key):
        return None

    def __call__(self, state, observation, *, key=None, action_mask=None):
        return state, jnp.array(0)

    def _row(self, state, observation, action, action_mask):
        obs_spec, act_spec, state_spec, mask_spec = self.specs
        leaves = []
        for spec, tree in ((obs_spec, observation), (act_spec, action), (state_spec, state),
                           (mask_spec, action_mask)):
            if spec is not None:
                leaves += list(walk(spec, tree))
        _, kind0, shape0, x0 = leaves[0]
        q0 = _q(shape0)
        first = x0.reshape(-1)[0].astype(jnp.float32)
        j = jnp.round(jnp.where(jnp.isfinite(first), first, 0.0)).astype(jnp.int32) // q0
        j = jnp.clip(j, 0, self.tab.shape[0] - 1)
        mis = jnp.stack([_leaf_mismatch(k, s, x, j) for _, k, s, x in leaves])
        return j, mis

    def evaluate_action(self, state, observation, action, *, action_mask=None):
        j, mis = self._row(state, observation, action, action_mask)
        row = self.tab[j]
        value = row[CH_VALUE]
        logp = row[CH_LOGP] + self.lp_num[j].astype(jnp.float32) / 64.0
        entropy = row[CH_VISIT] + jnp.sum(row[CH_MIS0:] * jax.lax.stop_gradient(mis))
        return state, value, logp, entropy

    def action_and_value(self, state, observation, *, key, action_mask=None):
        return state, jnp.array(0), jnp.array(0.0), jnp.array(0.0)

    def value(self, state, observation):
        return state, jnp.array(0.0)


def _walk_names(spec, path):
    if spec is None:
        return
    tag = spec[0]
    if tag == "leaf":
        yield (path,)
    elif tag == "tuple":
        for i, s in enumerate(spec[1]):
            yield from _walk_names(s, f"{path}[{i}]")
    else:
        for k, s in spec[1]:
            yield from _walk_names(s, f"{path}.{k}")


def recorder(tmax, lr_value):
    """optax GradientTransformation that stores the gradient of `tab` of every update step (and the
    value column of the parameters before the step) in its state, and applies plain SGD with
    learning rate `lr_value` to the value column only. Everything else stays put, so every recorded
    gradient is a pure function of the minibatch it was computed on."""

    def init(params):
        tab = params.tab
        return {"count": jnp.zeros((), jnp.int32),
                "G": jnp.zeros((tmax,) + tab.shape, tab.dtype),
                "P": jnp.zeros((tmax, tab.shape[0]), tab.dtype)}

    def update(grads, state, params=None):
        c = state["count"]
        G = state["G"].at[c].set(grads.tab, mode="drop")
        P = state["P"].at[c].set(params.tab[:, CH_VALUE], mode="drop")
        upd_tab = jnp.zeros_like(grads.tab).at[:, CH_VALUE].set(-lr_value * grads.tab[:, CH_VALUE])
        upd = jax.tree.map(jnp.zeros_like, grads)
        upd = eqx.tree_at(lambda p: p.tab, upd, upd_tab)
        return upd, {"count": c + 1, "G": G, "P": P}

    return optax.GradientTransformation(init, update)
