"""Harness-defined finite MDPs (subclasses of lerax's AbstractEnv) with history-carrying
state, plus a pure-Python reference interpreter written from the tables."""

from __future__ import annotations

from typing import ClassVar

import equinox as eqx
import jax
import numpy as np
from jax import numpy as jnp
from jax import random as jr

from lerax.env import AbstractEnv, AbstractEnvState
from lerax.space import Box, Dict, Discrete, MultiBinary, MultiDiscrete


class FState(AbstractEnvState):
    s: jax.Array  # state index
    t: jax.Array  # steps taken in this episode
    ret: jax.Array  # undiscounted return so far in this episode
    start: jax.Array  # start state index of this episode


class FiniteMDP(AbstractEnv):
    """Deterministic table MDP.

    action kinds:
      discrete       Discrete(nA)
      multidiscrete  MultiDiscrete(nvec), index = mixed radix
      multibinary    MultiBinary(k), index = sum bit_i 2^i
      box            Box(low, high, (d,)); index = bin of action[0] over [low, high] in nA
                     bins (index clipped only for the table lookup); the reward has an extra
                     term lin * sum(action) computed from the action *as given*, so a caller
                     that passes an unclipped action gets a different reward.
    obs kinds: onehot (Box(0,1,(nS,))), index (Box(0,nS-1,(1,))), dict
    """

    name: ClassVar[str] = "FiniteMDP"

    action_space: object
    observation_space: object
    P: jax.Array
    R: jax.Array
    term: jax.Array
    trunc: jax.Array
    starts: jax.Array
    masks: jax.Array | None
    kind: str = eqx.field(static=True)
    obs_kind: str = eqx.field(static=True)
    nS: int = eqx.field(static=True)
    nA: int = eqx.field(static=True)
    nvec: tuple = eqx.field(static=True)
    lin: float = eqx.field(static=True)
    low: float = eqx.field(static=True)
    high: float = eqx.field(static=True)

    def __init__(self, P, R, term, starts, *, trunc=None, masks=None, kind="discrete",
                 obs_kind="onehot", nvec=(), box_dim=1, low=-1.0, high=1.0, lin=0.25):
        P = np.asarray(P)
        self.nS, self.nA = int(P.shape[0]), int(P.shape[1])
        self.P = jnp.asarray(P, dtype=jnp.int32)
        self.R = jnp.asarray(R, dtype=jnp.float32)
        self.term = jnp.asarray(term, dtype=bool)
        self.trunc = jnp.asarray(trunc if trunc is not None else np.zeros(self.nS, bool), dtype=bool)
        self.starts = jnp.asarray(starts, dtype=jnp.int32)
        self.masks = None if masks is None else jnp.asarray(masks, dtype=bool)
        self.kind, self.obs_kind = kind, obs_kind
        self.nvec = tuple(int(n) for n in nvec)
        self.lin, self.low, self.high = float(lin), float(low), float(high)
        if kind == "discrete":
            self.action_space = Discrete(self.nA)
        elif kind == "multidiscrete":
            assert int(np.prod(self.nvec)) == self.nA
            self.action_space = MultiDiscrete(self.nvec)
        elif kind == "multibinary":
            assert 2 ** len(self.nvec) == self.nA  # nvec = (2,)*k
            self.action_space = MultiBinary(len(self.nvec))
        elif kind == "box":
            self.action_space = Box(low, high, shape=(box_dim,))
        else:
            raise ValueError(kind)
        if obs_kind == "onehot":
            self.observation_space = Box(0.0, 1.0, shape=(self.nS,))
        elif obs_kind == "index":
            self.observation_space = Box(0.0, float(self.nS - 1), shape=(1,))
        elif obs_kind == "onehot_t":  # one-hot state followed by the episode clock
            self.observation_space = Box(np.zeros(self.nS + 1, np.float32),
                                         np.array([1.0] * self.nS + [1e6], np.float32))
        elif obs_kind == "dict":
            self.observation_space = Dict({"s": Box(0.0, 1.0, shape=(self.nS,)),
                                           "i": Box(0.0, float(self.nS - 1), shape=())})
        else:
            raise ValueError(obs_kind)

    # ----- action decoding
    def a_index(self, action):
        if self.kind == "discrete":
            return jnp.asarray(action).astype(jnp.int32)
        if self.kind == "multidiscrete":
            idx = jnp.array(0, jnp.int32)
            for i, n in enumerate(self.nvec):
                idx = idx * n + jnp.asarray(action)[i].astype(jnp.int32)
            return idx
        if self.kind == "multibinary":
            a = jnp.asarray(action).astype(jnp.int32)
            return jnp.sum(a * (2 ** jnp.arange(len(self.nvec), dtype=jnp.int32)))
        a0 = jnp.asarray(action)[0]
        b = jnp.floor((a0 - self.low) / (self.high - self.low) * self.nA).astype(jnp.int32)
        return jnp.clip(b, 0, self.nA - 1)

    def initial(self, *, key):
        s = self.starts[jr.randint(key, (), 0, self.starts.shape[0])]
        return FState(s, jnp.array(0, jnp.int32), jnp.array(0.0, jnp.float32), s)

    def action_mask(self, state, *, key):
        if self.masks is None:
            return None
        return self.masks[state.s]

    def _r(self, state, action):
        r = self.R[state.s, self.a_index(action)]
        if self.kind == "box":
            r = r + self.lin * jnp.sum(jnp.asarray(action))
        return r

    def transition(self, state, action, *, key):
        ns = self.P[state.s, self.a_index(action)]
        return FState(ns, state.t + 1, state.ret + self._r(state, action), state.start)

    def observation(self, state, *, key):
        oh = jax.nn.one_hot(state.s, self.nS, dtype=jnp.float32)
        if self.obs_kind == "onehot":
            return oh
        if self.obs_kind == "index":
            return state.s[None].astype(jnp.float32)
        if self.obs_kind == "onehot_t":
            return jnp.concatenate([oh, state.t[None].astype(jnp.float32)])
        from collections import OrderedDict

        return OrderedDict({"s": oh, "i": state.s.astype(jnp.float32)})

    def reward(self, state, action, next_state, *, key):
        return self._r(state, action)

    def terminal(self, state, *, key):
        return self.term[state.s]

    def truncate(self, state):
        return self.trunc[state.s]

    def state_info(self, state):
        return {}

    def transition_info(self, state, action, next_state):
        return {}

    def default_renderer(self):
        raise NotImplementedError

    def render(self, state, renderer):
        raise NotImplementedError


# ------------------------------------------------------------------ reference interpreter
class RefMDP:
    """Pure NumPy/Python semantics of FiniteMDP (+ optional TimeLimit layers)."""

    def __init__(self, P, R, term, starts, trunc=None, masks=None, kind="discrete", nvec=(),
                 low=-1.0, high=1.0, lin=0.25, time_limit=None):
        self.P = np.asarray(P, dtype=np.int64)
        self.R = np.asarray(R, dtype=np.float64)
        self.term = np.asarray(term, dtype=bool)
        self.trunc = np.zeros(len(self.term), bool) if trunc is None else np.asarray(trunc, bool)
        self.starts = [int(x) for x in np.asarray(starts)]
        self.masks = None if masks is None else np.asarray(masks, bool)
        self.kind, self.nvec = kind, tuple(nvec)
        self.low, self.high, self.lin = float(low), float(high), float(lin)
        self.nS, self.nA = self.P.shape
        self.time_limit = time_limit

    def a_index(self, action):
        a = np.asarray(action)
        if self.kind == "discrete":
            return int(a)
        if self.kind == "multidiscrete":
            idx = 0
            for i, n in enumerate(self.nvec):
                idx = idx * n + int(a[i])
            return idx
        if self.kind == "multibinary":
            return int(sum(int(a[i]) << i for i in range(len(self.nvec))))
        a0 = np.float32(a.ravel()[0])
        b = int(np.floor(np.float32((a0 - np.float32(self.low)) / np.float32(self.high - self.low)) * np.float32(self.nA)))
        return int(min(max(b, 0), self.nA - 1))

    def clip(self, action):
        if self.kind != "box":
            return np.asarray(action)
        return np.clip(np.asarray(action, dtype=np.float32), np.float32(self.low), np.float32(self.high))

    def reward(self, s, action):
        r = float(self.R[s, self.a_index(action)])
        if self.kind == "box":
            r += self.lin * float(np.sum(np.asarray(action, dtype=np.float64)))
        return r

    def step(self, s, t, action):
        """(s, t) with t = steps so far in the episode; action already as executed.
        Returns s', r, terminal, truncated."""
        ns = int(self.P[s, self.a_index(action)])
        r = self.reward(s, action)
        term = bool(self.term[ns])
        trunc = bool(self.trunc[ns])
        if self.time_limit is not None and t + 1 >= self.time_limit:
            trunc = True
        return ns, r, term, trunc


def random_tables(rng, nS, nA, *, p_term=0.2, p_trunc=0.0, n_starts=2, with_masks=False,
                  chain_bias=0.5):
    """Random deterministic MDP tables. Start states are never terminal/truncating;
    `chain_bias` steers transitions forward so that episodes end within a few steps."""
    P = rng.integers(0, nS, size=(nS, nA))
    fwd = np.minimum(np.arange(nS)[:, None] + 1 + rng.integers(0, 2, size=(nS, nA)), nS - 1)
    P = np.where(rng.random((nS, nA)) < chain_bias, fwd, P)
    R = np.round(rng.normal(0, 1, size=(nS, nA)), 3).astype(np.float32)
    term = rng.random(nS) < p_term
    trunc = rng.random(nS) < p_trunc
    starts = rng.choice(nS, size=min(n_starts, nS), replace=False)
    term[starts] = False
    trunc[starts] = False
    masks = None
    if with_masks:
        masks = rng.random((nS, nA)) < 0.6
        for s in range(nS):
            if not masks[s].any():
                masks[s, rng.integers(nA)] = True
    return dict(P=P, R=R, term=term, trunc=trunc, starts=np.sort(starts), masks=masks)
