"""Regenerates /verif/MANIFEST.json from the table below (python3 -m vlib.mkmanifest)."""

from __future__ import annotations

import json
from pathlib import Path

ROOT = Path(__file__).resolve().parent.parent

# property id -> (technique, level text, level note, design ref)
BUILT: dict[str, tuple[str, str, str, str]] = {}

NOT_BUILT_REASON = ("runtime-monitoring check designed (DESIGN.md section 2) but not yet built in "
                    "this commit; nothing is claimed for it")


def reg(pid, technique, text, note):
    BUILT[pid] = (technique, text, note, f"DESIGN.md section 2, {pid}")


reg("C03", "reference-model monitor (float64 GAE recursion) over real estimator calls + icontract post-condition during real collection",
    "Held on every execution explored: the real RolloutBuffer.compute_returns_and_advantages agrees with a float64 "
    "backward recursion on all 2^T done patterns for small T (run completely), random long rollouts, eager/jit/vmap, "
    "and on the arguments the real PPO/A2C/REINFORCE pass during collection (contract on the real method). "
    "Exploration, not proof: unbounded reals and lengths are sampled.",
    "Trusts NumPy float64 arithmetic and the 40-line reference; float32 tolerance 1e-4*magnitude bound.")

reg("C04", "history + executable model: real on-policy collection on finite MDPs replayed by a Python interpreter; stored value/log-prob re-evaluated under the unchanged policy",
    "Held on every collected stream explored: each recorded step of real PPO/A2C/REINFORCE rollouts (collect_rollout under jit/vmap and "
    "through iteration()) on random finite MDPs is replayed by a table interpreter: observation, stored action and its own value/log-prob, "
    "clipped execution, reward incl. bootstrap only on truncation-without-termination, done flags, masks, restarts of env/TimeLimit/policy "
    "state, carried step state. Exploration over sampled MDPs/keys/shapes.",
    "Trusts the harness FiniteMDP/RefMDP pair and the policy's own evaluate_action/value as re-evaluation oracle.")
reg("C05", "history + executable model: replay-buffer contents after real DQN/SAC reset()/iteration() read back in insertion order and replayed by a Python interpreter",
    "Held on every stored stream explored: per-environment replay contents of real DQN/SAC warm-up and iterations on random finite MDPs "
    "(observation carries state and episode clock) equal the interpreter's transitions: acting observation, chosen action, reward of the "
    "clipped action, pre-reset successor observation, done/timeout flags, restarts, per-env counts learning_starts + k*num_steps, "
    "stream continuity per environment (no foreign transition). Exploration over sampled configurations.",
    "Trusts the harness FiniteMDP/RefMDP pair and the ring read-back order (decided separately by C06).")

reg("C08", "reference-model monitor: float64 formulas of the published objectives vs the real static loss functions / *_grad; one-sample gradient-support probes; real optimiser step vs independent optax chain",
    "Held on every buffer explored: PPO/A2C/REINFORCE loss values and statistics equal float64 formulas written from the property "
    "(clipped surrogate, PPO2 max value clipping, entropy, approx KL) across flag/coefficient grids and ratio classes around both clip edges; "
    "one-sample buffers show zero policy gradient exactly in the clipped region; on-policy data gives ratio 1 / KL 0; one real update equals "
    "clip_by_global_norm+adam on the same gradient (Adam first moment exposes the clipped gradient). Exploration over sampled buffers.",
    "Trusts policy.evaluate_action outputs as inputs of the formulas, NumPy float64, optax as reference optimiser. Constant advantages under "
    "normalisation only where the float32 mean is exact.")

reg("C07", "reference-model monitor: float64 TD-target formulas vs real DQN.dqn_loss/dqn_loss_grad/dqn_train; recording wrapper on SAC.q_loss_grad observes per-sample SAC targets during real sac_train",
    "Held on every batch explored: DQN loss equals the Double-DQN formula with terminated = done and not timeout for all four flag combinations, "
    "gamma grid and distinct online/target parameters; the gradient handed to the optimiser is that of a regression on constant targets; SAC's "
    "per-sample targets (observed at the q_loss_grad call boundary of the real sac_train) equal r + gamma*(1-terminated)*(min target critics at a "
    "fresh next action - alpha*logp), the reported q_loss is the twin half-MSE against them, the critic step is a regression on constant targets "
    "and the actor step leaves the critics bit-identical. Exploration over sampled batches/parameters.",
    "Trusts the real network modules' forward outputs as inputs of the formulas; 'fresh next action' decided with a deterministic stub policy "
    "plus key sensitivity of the real policy; d loss/d target-parameters is deliberately not asserted (the loss value does depend on them).")

reg("C10", "invariants at hooks + shadow model: harness-defined counting callback/clock MDP observe real learn(); algorithm state inspected after every real iteration() against a shadow schedule model",
    "Held on every run explored: learn(T) of all five algorithms performs floor(T/(E*S)) iterations (counted by the callback's pure state, by "
    "ordered iteration events and by the environment's own step clock), iteration_count advances by one, every iteration consumes E*S steps "
    "(+ per-env warm-up); DQN's target equals, bit for bit, the online snapshot of the last multiple of the interval and is unchanged in between; "
    "SAC targets follow one Polyak step per iteration (2e-6), the actor changes only on one residue class mod policy_frequency and does change "
    "there, log_alpha only there and only with autotune. Exploration over sampled configurations and short histories.",
    "Trusts ordered jax.debug.callback at top level of learn/scan body (not under vmap/cond) and array snapshots of the returned states.")

reg("C19", "reference-model monitor (float64 episode/EMA model) over LoggingCallbackStepState.next histories; recording backend observes real learn()/iteration() runs; table interpreter reconstructs the true reward stream; decodable start-state returns for average_reward",
    "Held on every history/run explored: the step-state statistics follow the float64 EMA-of-episode-sums model on random histories "
    "(eager/jit/vmap, bursts, alpha 0/1) and are unchanged on non-done steps; records of real learn() runs of all five algorithms arrive once "
    "per iteration, in order, with step = cumulative environment steps and closed-form statistics on unit-reward chains ending by termination, "
    "truncation or both; on random MDPs the logged numbers equal the EMA of the interpreter's true episode returns; average_reward equals the "
    "interpreter's episode return (first terminal/truncated state or cap) and n*mean decodes to n episodes over varying start states.",
    "Trusts the recording backend (thread-safe list), ordered callbacks lerax itself uses as its output channel, RefMDP interpreter.")

reg("C11", "differential runtime monitor: twin executions of the real learn()/iteration() (same inputs in-process, fresh subprocess, other key, observers attached) compared leaf by leaf",
    "Held on every twin pair explored: for all five algorithms on a finite MDP and CartPole/Pendulum, repeating learn() with the same inputs gives "
    "bit-identical parameters (also from a fresh process), another key gives a different run, the input policy is untouched bit for bit; with "
    "LoggingCallback (recording and console backends), ProgressBarCallback and callback lists attached the parameters stay within 1% of the "
    "distance training moved them and all integer-valued history (environment states, replay actions/dones) is exactly equal.",
    "Trusts XLA CPU determinism per compiled program; observers change the compiled program so bit-equality is not demanded there (1 ulp "
    "differences were measured), a key-stream perturbation moves parameters by the order of training itself and flips discrete history.")

reg("C15", "reference-model monitor: real log_prob/prob/sample/mode/entropy of all seven distribution classes judged by float64 quadrature, enumeration of discrete supports, exact KS / chi-square tests and Monte-Carlo entropy",
    "Held on every parameterisation explored (apart from the listed known finding): prob = exp(log_prob); enumerated discrete supports and harness-side "
    "quadrature of the real density give total mass 1; samples and mode lie in the support; sample_and_log_prob is consistent; samples follow the "
    "integrated real density (KS / chi-square at 1e-6..1e-7 per case); entropy = -E[log p] where defined; product laws equal the sums over "
    "independently built components in flat and sequence form, eagerly and under jit+vmap. Exploration over sampled parameters.",
    "Trusts NumPy/SciPy float64 (quadrature, kstwo, chi2); saturating / float32-unresolved squashed laws get only the local relations; density "
    "exactly at the bounds, +inf Bernoulli logits and unnormalised probs are excluded as ambiguous.")
reg("C18", "round-trip monitor: real serialize/deserialize of every policy class on generated spaces/architectures/path spellings, leaves compared bit for bit and outputs on 64 observations; mismatch pairs must raise",
    "Held on every case explored: every policy class x supported space kind x architecture x perturbed/special parameter values x 12 path spellings "
    "round-trips to bit-identical leaves and identical actions/values/log-probs/q-values; every pair of policies with different leaf shapes raises on "
    "load (incl. files deeper than the skeleton with coinciding leading shapes); different names never overwrite each other. Exploration over "
    "sampled configurations.",
    "Trusts the filesystem and jax.effects_barrier() for the debug-callback write; dotted file names are read as 'path spellings without the .eqx suffix'.")

reg("C16", "reference-model monitor: masked distributions and policies called with masks, judged by a float64 NumPy model (own forward pass over the policy weights); exhaustive over all non-empty masks for small action counts; exact binomial bound for epsilon-greedy",
    "Held on every case explored: for Categorical/MultiCategorical/Bernoulli under every non-empty mask of small action counts (run completely) masked "
    "entries get probability exactly 0 and log-prob -inf, the rest is renormalised proportionally, neither 512 samples nor the mode are ever masked; "
    "the same end-to-end through MLPActorCriticPolicy (Discrete, MultiDiscrete, MultiBinary), MLPQPolicy and a table Q policy (epsilon 0/0.1/0.5/1), "
    "key-less calls return the allowed argmax identically across eager/jit/vmap, keyed calls report the log-prob of the returned action, the "
    "non-greedy frequency respects epsilon, and PPO/A2C rollouts on masked MDPs record and honour the mask.",
    "Trusts a NumPy forward pass over the policy's own weights; near-tied greedy cases are skipped; squashed-Gaussian 'mode' is the image of the mean "
    "(SAC convention); masks in off-policy collection are observed but not judged (no given property covers them).")

reg("C06", "history + executable model: real ReplayBuffer.add/sample driven with unique insertion ids in every field, contents and sampled rows judged by a 15-line ring model; icontract post-conditions on add/sample during eager DQN",
    "Held on every history explored (apart from the listed known finding beyond 2^31 insertions): after every prefix of insertion histories up to 10x "
    "capacity (capacities 1..64, scan/jit/eager, pytree observations and policy states) the buffer holds exactly the most recent min(n,C) ids with all "
    "fields of a slot from one insertion; sample() for every batch size <= stored (small capacities run completely) returns only stored ids, never an "
    "unwritten slot, none twice, also for vmapped per-environment buffers at mixed fill levels; long compiled histories of 2e7..3e8 adds.",
    "Trusts the ring model and the id encoding; reachability of every stored id is a support test at p < 1e-9, uniformity is not claimed.")
reg("C14", "reference-model monitor: real contains/sample/canonical/flatten_sample/==/hash of generated spaces (all kinds, nested) judged by a pure-NumPy membership and structure model; Gymnasium round trips",
    "Held on every construction and candidate explored (apart from the listed float32 flatten finding): contains answers with a scalar boolean that "
    "agrees with the model on members, boundary values, nextafter-outside values, NaN, wrong shapes, negative/too-large/non-integral indices and "
    "foreign types; samples (with every non-empty Discrete mask for n <= 5) and canonical values are finite members; flatten_sample has flat_size "
    "finite numbers and separates distinct samples; == holds exactly between structural copies, not across ~30 single-field mutations, agrees with "
    "hash, and survives Gymnasium round trips in Gymnasium's key order.",
    "Trusts the NumPy space model (cross-checked against gym.Space.contains); ambiguous representations (plain dict for Dict, list for Tuple, "
    "int arrays for Box) are only required not to raise; subnormal bounds excluded (XLA flushes them).")

reg("C09", "offline checker over recorded index sets and decoded rows (unique sample id in every leaf); gradient tagging through the real PPO.train with a recording optimiser and a value-table stub policy; icontract post-conditions on batch_indices/gather during eager train",
    "Held on every configuration explored: flatten_axes is a bijection on sample ids with all leaves of a row intact (Dict/Tuple observations, "
    "vector actions, masks, policy-state modules; all (envs<=4, steps<=16, batch) run completely in thorough); batch_indices gives floor(N/B) "
    "disjoint in-range rows; gather/batches/sample return intact rows; through the real jitted PPO.train each epoch uses exactly floor(N/B)*B distinct "
    "samples, every minibatch row's fields belong together (mismatch channels for every field), epochs are shuffled differently and drop different "
    "samples; optimiser step count = epochs*floor(N/B).",
    "Trusts the id encoding (exact in float32) and the recording optimiser; freshness of shuffles judged only where a coincidence has p < 1e-6; "
    "order of the flattened axis is not asserted (the property demands a bijection).")

reg("C13", "differential monitor: real wrapper stacks vs a float64 composition of the declared action/observation/reward maps and time limits over a probing environment whose every component depends on all of its inputs; TimeLimit driven through enumerated episode histories; adapters vs twin environments",
    "Held on every stack/history explored: each documented wrapper alone and type-directed random stacks (depth <= 4) over a probing env, finite MDPs and "
    "classic-control envs agree with the composed reference on all nine functional components, advertised spaces and unwrapped env/state; RescaleAction/"
    "RescaleObservation map new bounds onto original bounds and interior points affinely; TimeLimit(N), N=1..8, truncates at exactly the N-th step over >= 3 "
    "consecutive episodes of every inner length 1..10, alone, nested, vmapped; the four Gymnasium/Gymnax adapters reproduce their twin's trajectory.",
    "Trusts the ProbeEnv harness environment and twin Gymnasium/Gymnax environments; rescale bounds within 8*eps32*(|bounds| scale) instead of 1 ulp (the "
    "correct float32 affine formula cannot do better); classic-control stacks under jit only.")

reg("C20", "invariants over returned states and helper outputs: tree walk of every mjx.Model field against the nominal model, range checks on randomised fields, MuJoCo C-engine kinematics recomputed from the returned qpos, per-step gait-phase checks along 1e5-step histories and real transition rollouts",
    "Held on every key/history explored: randomize_* / randomize_model (default, custom, degenerate ranges; ~1000 keys each) change exactly the intended "
    "entries of the four intended fields, within range, all other 380+ model fields bit-equal to nominal; sampled commands and gait frequencies lie in "
    "range (zero for standing tasks); initial states of the G1 tasks have kinematics consistent with their qpos (1e-5) and sit at the documented ground "
    "clearance; gait phases stay in [-pi, pi], half a cycle apart, and advance by 2*pi*f*dt per control step over 1e5-step float32 histories and along real "
    "transition rollouts; desired foot height stays in [0, h], 0 at +-pi, h at 0.",
    "Trusts the MuJoCo C engine for reference kinematics; half-cycle separation tolerance 1e-4 + 1e-6*n over n steps (float32 accumulation, measured); "
    "both tiers run every unit (stepped episodes of all three G1 tasks take about 30 s each); the thorough tier differs by sample sizes.")

reg("C01", "history + executable model: tuples returned by the real jitted env.step/env.reset compared with the functional components evaluated separately on the same (state, action), per-environment initial-support predicates, independent Python clocks for TimeLimit layers and a table interpreter for finite MDPs",
    "Held on every step explored: for finite MDPs under 12-24 wrapper stacks, all classic-control envs (bare and stacked), MuJoCo envs and G1Standing the "
    "reported reward and flags are those of exactly the transition taken; when a flag is raised the returned state lies in the initial support, is not the "
    "successor, every episode clock and TimeLimit counter is restarted and the observation is the returned state's; otherwise state and observation are the "
    "successor's; reset returns an initial state with its own observation; reset states are freshly drawn (different keys give different states). "
    "Terminal-only, truncation-only and both-at-once endings are all required to occur.",
    "Trusts the components evaluated separately (deterministic envs) and per-env initial-support predicates (Gaussian reset noise bounded at 6 sigma); "
    "natural endings of MountainCar/Acrobot come from planted near-goal states.")

reg("C17", "differential monitor against the reference implementation: Gymnasium 1.3.0 classic-control envs driven to the same state; for MuJoCo model identity, Gymnasium's own step() computing obs/reward/terminated/info from lerax's simulation data (and the reverse), and the C engine on contact-free steps",
    "Held on every state explored: classic control - vector field, state limits (incl. the left wall), reward (incl. the goal step), termination and initial "
    "range of CartPole, MountainCar, ContinuousMountainCar and Acrobot equal Gymnasium's over the whole state box, and CartPole+Euler reproduces Gymnasium "
    "step for step, and the vector fields still coincide with non-default physical constants on both sides; MuJoCo (all 11 envs in both tiers, constructor options toggled) - 484 model arrays identical, reset observations equal, "
    "Gymnasium's unmodified step() fed with lerax's data reproduces lerax's observation/reward/termination/reward components to 1e-4 (and lerax's formulas "
    "on the C engine's data reproduce Gymnasium's), contact-free one-step dynamics agree to 1e-3, cfrc_ext is populated on contact steps.",
    "Trusts Gymnasium 1.3.0 and the MuJoCo 3.13 C engine as reference; steps with contacts are compared structurally only (MJX and the C engine are "
    "different solvers); float32/float64 threshold ties excluded and counted; ContinuousMountainCar actions taken inside the action space.")

reg("C02", "invariant monitor over jitted scan rollouts through the real env.step (auto-reset) for every built-in environment, constructor variants and wrapper stacks: NumPy membership model on every emitted observation / sampled action / reward / flag; re-run in process and in a fresh interpreter",
    "Held on every rollout explored (apart from the listed 1-ulp rounding finding of RescaleObservation): every observation emitted along vmapped scan "
    "rollouts (sampled, bound-corner and constant-extreme actions; classic control 64 keys x 2000-4000 steps, MuJoCo and G1 shorter) has the declared "
    "shape and dtype, no NaN, and lies within the declared bounds; sampled actions are members and accepted; contains agrees with the model; rewards are "
    "finite float scalars and flags boolean scalars; declared MuJoCo observation sizes follow the v5 formula after toggling flags; the same batch re-run in "
    "process, on a rebuilt env and in a fresh interpreter with another hash seed is bit-identical.",
    "Trusts the NumPy membership model; pre-reset successors judged for classic control only (MuJoCo/G1 boxes are unbounded); RescaleObservation/"
    "RescaleAction used only over bounded boxes; quick tier = classic control + InvertedPendulum + HalfCheetah.")

reg("C12", "differential monitor: every environment function evaluated eagerly / under jit / under vmap (shuffled, repeated, interleaved with a second instance) must agree; vectorised collection vs N single-environment twins from the same per-env keys and states; interpreter replay of parallel rollouts; per-env policy-state counters",
    "Held on every case explored: the ten environment functions of all classic-control envs, 14 wrapper stacks, MuJoCo envs (InvertedPendulum quick, all 11 "
    "thorough) and G1Standing give the same answers eagerly, under filter_jit, closure jit, disable_jit and jit(vmap) at batch sizes 1/2/7 (integers and "
    "booleans exactly, floats to 1e-5 / 1e-4), independent of call order and of calls on other instances; N-environment collection of PPO/A2C/REINFORCE/DQN/"
    "SAC equals N single-environment collections from the same keys and start states leaf by leaf, per-env advantages equal the float64 GAE reference on "
    "that env's own stream (and differ from GAE over the flattened batch), parallel table-policy rollouts equal interpreter rollouts, per-env policy-state "
    "counters never leak, and parallel environments get distinct keys.",
    "Differences above the base tolerance are excused only if within 30x the measured effect of a 2e-7 relative perturbation of all float arguments "
    "(ill-conditioned contact by-products, chaotic amplification) and the reference re-run on rebuilt arrays is bit-identical; MJX contact rows of "
    "non-touching pairs are not compared.")


def main():
    props = [json.loads(l) for l in (ROOT / "properties.jsonl").read_text().splitlines() if l.strip()]
    checks, na = [], []
    for p in props:
        pid = p["id"]
        if pid in BUILT:
            tech, text, note, ref = BUILT[pid]
            checks.append({
                "property_id": pid,
                "quick_cmd": f"./check {pid} --tier quick",
                "thorough_cmd": f"./check {pid} --tier thorough",
                "evidence_file": f"evidence/{pid}.json",
                "replay_cmd_template": f"./check {pid} --replay {{path}}",
                "engine": "vlib-runtime-monitor",
                "level_claimed": {"category": "exploration", "text": text, "design_ref": ref},
                "level_note": note,
                "technique": tech,
            })
        else:
            na.append({"property_id": pid, "reason": NOT_BUILT_REASON})
    hooks_file = ROOT / "hooks.json"
    hooks = json.loads(hooks_file.read_text()) if hooks_file.exists() else {"source_commits": []}
    man = {
        "version": 1,
        "setup_cmd": "bash ./setup.sh",
        "hooks": {
            "guard": "LERAX_VERIF",
            "enable": "environment variable LERAX_VERIF=1 (exported by ./check); no repository hook is needed so far: "
                      "all monitors are installed from the harness (monkeypatched contracts, harness-defined "
                      "environments/policies/backends)",
            "baseline_off_cmd": "cd /repo && env -u LERAX_VERIF /venv/bin/python -m pytest -ra -q -p no:cacheprovider "
                                "--timeout=900 --continue-on-collection-errors -n 8",
            "source_commits": hooks.get("source_commits", []),
            "add_only": True,
        },
        "engines": [{
            "name": "vlib-runtime-monitor",
            "path": "vlib/run.py",
            "serves_properties": sorted(BUILT),
            "kind_free_text": "runtime monitoring: real lerax code driven by generated hostile workloads in subprocess "
                              "units; oracles = float64 reference models, icontract post-conditions on the real methods, "
                              "offline checkers over recorded histories; three-valued verdict",
        }],
        "checks": checks,
        "not_applicable": na,
        "notes": "Exit codes: 0 held on what was observed, 1 violation (VIOLATION line + replay file), 2 inconclusive "
                 "(a deciding monitor was not reached / watchdog). known_findings.json lists genuine defects by mechanism key.",
    }
    (ROOT / "MANIFEST.json").write_text(json.dumps(man, indent=1) + "\n")
    try:
        import jsonschema

        jsonschema.validate(man, json.loads(Path("/root/.vp/MANIFEST.schema.json").read_text()))
        print("MANIFEST valid;", len(checks), "checks,", len(na), "not_applicable")
    except ImportError:
        print("jsonschema missing; wrote without validation")


if __name__ == "__main__":
    main()
