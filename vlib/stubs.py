"""Harness-defined policies and recording backends (subclasses of lerax's abstract classes)."""

from __future__ import annotations

import threading
from typing import ClassVar

import equinox as eqx
import numpy as np
import jax
from jax import numpy as jnp

from lerax.policy import (
    AbstractActorCriticPolicy,
    AbstractPolicyState,
    AbstractQPolicy,
    AbstractSACPolicy,
)
from lerax.space import Box, Discrete


class CountState(AbstractPolicyState):
    n: jax.Array


def _sidx(observation, nS=None):
    """state index from a one-hot (or index) observation"""
    o = jnp.asarray(observation)
    if nS is not None and o.ndim == 1 and o.shape[0] == nS + 1:  # onehot_t
        return jnp.argmax(o[:nS]).astype(jnp.int32)
    if o.ndim == 0:
        return o.astype(jnp.int32)
    if o.shape[0] == 1:
        return o[0].astype(jnp.int32)
    return jnp.argmax(o).astype(jnp.int32)


class CountingACPolicy(AbstractActorCriticPolicy):
    """Stateful stochastic table policy over Discrete actions: the policy state counts the
    calls since its last reset and shifts logits and values, so storing/using a wrong policy
    state is visible in re-evaluated log-probs and values."""

    name: ClassVar[str] = "CountingACPolicy"
    action_space: Discrete
    observation_space: object
    logits: jax.Array
    values: jax.Array

    def __init__(self, env, *, key):
        self.action_space = env.action_space
        self.observation_space = env.observation_space
        nS = env.observation_space.flat_size
        k1, k2 = jax.random.split(key)
        self.logits = jax.random.normal(k1, (nS, env.action_space.n))
        self.values = jax.random.normal(k2, (nS,))

    def reset(self, *, key):
        return CountState(jnp.array(0, jnp.int32))

    def _dist(self, state, observation, action_mask):
        from lerax.distribution import Categorical

        s = _sidx(observation)
        lg = self.logits[s] + 0.3 * jnp.sin(state.n.astype(jnp.float32) + jnp.arange(self.logits.shape[1]))
        d = Categorical(logits=lg)
        if action_mask is not None:
            d = d.mask(action_mask)
        return d, self.values[s] + 0.05 * state.n.astype(jnp.float32)

    def __call__(self, state, observation, *, key=None, action_mask=None):
        d, _ = self._dist(state, observation, action_mask)
        a = d.mode() if key is None else d.sample(key)
        return CountState(state.n + 1), a

    def action_and_value(self, state, observation, *, key, action_mask=None):
        d, v = self._dist(state, observation, action_mask)
        a, lp = d.sample_and_log_prob(key)
        return CountState(state.n + 1), a, v, lp

    def value(self, state, observation):
        _, v = self._dist(state, observation, None)
        return state, v

    def evaluate_action(self, state, observation, action, *, action_mask=None):
        d, v = self._dist(state, observation, action_mask)
        return CountState(state.n + 1), v, d.log_prob(action), d.entropy()


class TableACPolicy(AbstractActorCriticPolicy):
    """Deterministic table policy (ignores the key): action = table[s]."""

    name: ClassVar[str] = "TableACPolicy"
    action_space: Discrete
    observation_space: object
    table: jax.Array
    values: jax.Array

    def __init__(self, env, table, values=None):
        self.action_space = env.action_space
        self.observation_space = env.observation_space
        self.table = jnp.asarray(table, jnp.int32)
        self.values = jnp.zeros(len(table)) if values is None else jnp.asarray(values, jnp.float32)

    def reset(self, *, key):
        return None

    def __call__(self, state, observation, *, key=None, action_mask=None):
        return None, self.table[_sidx(observation)]

    def action_and_value(self, state, observation, *, key, action_mask=None):
        s = _sidx(observation)
        return None, self.table[s], self.values[s], jnp.array(0.0)

    def value(self, state, observation):
        return None, self.values[_sidx(observation)]

    def evaluate_action(self, state, observation, action, *, action_mask=None):
        return None, self.values[_sidx(observation)], jnp.array(0.0), jnp.array(0.0)


class KeyAwareTablePolicy(TableACPolicy):
    """Two tables: `table` is played when no key is given (the key-less / greedy behaviour), `keyed` when a key is
    given (whatever its value), so that an evaluation run is an exact function of *which* mode was requested."""

    name: ClassVar[str] = "KeyAwareTablePolicy"
    keyed: jax.Array

    def __init__(self, env, table, keyed):
        super().__init__(env, table)
        self.keyed = jnp.asarray(keyed, jnp.int32)

    def __call__(self, state, observation, *, key=None, action_mask=None):
        s = _sidx(observation)
        return None, (self.table[s] if key is None else self.keyed[s])


class CountingQPolicy(AbstractQPolicy):
    """Stateful table Q policy for DQN collection checks."""

    name: ClassVar[str] = "CountingQPolicy"
    action_space: Discrete
    observation_space: object
    epsilon: float
    q: jax.Array
    nS: int = eqx.field(static=True)

    def __init__(self, env, *, key, epsilon=0.5):
        self.action_space = env.action_space
        self.observation_space = env.observation_space
        self.epsilon = epsilon
        self.nS = int(env.unwrapped.nS)
        self.q = jax.random.normal(key, (self.nS, env.action_space.n))

    def reset(self, *, key):
        return CountState(jnp.array(0, jnp.int32))

    def q_values(self, state, observation):
        return CountState(state.n + 1), self.q[_sidx(observation, self.nS)] + 0.2 * jnp.cos(state.n + jnp.arange(self.q.shape[1]))


class WildSACPolicy(AbstractSACPolicy):
    """Behaviour policy that deliberately emits out-of-bounds actions (bounded Box env):
    action = 3 * (high-low) * normal, so roughly half of the samples need clipping."""

    name: ClassVar[str] = "WildSACPolicy"
    action_space: Box
    observation_space: object
    scale: jax.Array

    planned: bool = eqx.field(static=True, default=False)

    def __init__(self, env, scale=1.5, planned=False):
        self.action_space = env.action_space
        self.observation_space = env.observation_space
        self.scale = jnp.asarray(scale, jnp.float32)
        self.planned = planned

    def reset(self, *, key):
        return CountState(jnp.array(0, jnp.int32))

    def plan(self, n):
        """planned mode: the chosen action is a function of the policy's own step counter (the key is ignored), so
        an oracle can recompute what was chosen from the stored policy state"""
        j = jnp.arange(int(np.prod(self.action_space.shape)), dtype=jnp.float32).reshape(self.action_space.shape)
        return 2.0 * self.scale * jnp.sin(1.3 * jnp.asarray(n, jnp.float32) + 2.1 * j + 0.4)

    def __call__(self, state, observation, *, key=None, action_mask=None):
        shape = self.action_space.shape
        if self.planned:
            return CountState(state.n + 1), self.plan(state.n)
        a = jnp.zeros(shape) if key is None else self.scale * jax.random.normal(key, shape)
        return CountState(state.n + 1), a

    def action_distribution(self, state, observation):
        raise NotImplementedError

    def action_and_log_prob(self, state, observation, *, key):
        shape = self.action_space.shape
        return state, self.scale * jax.random.normal(key, shape), jnp.array(0.0)


class Recorder:
    """Thread-safe event list used by recording logging backends."""

    def __init__(self):
        self._lock = threading.Lock()
        self.events: list = []

    def add(self, ev):
        with self._lock:
            self.events.append(ev)

    def snapshot(self):
        with self._lock:
            return list(self.events)


# ------------------------------------------------------------------ probe callback
from lerax.callback import AbstractCallback, AbstractCallbackState, AbstractCallbackStepState  # noqa: E402


class ProbeState(AbstractCallbackState):
    iters: jax.Array
    started: jax.Array


class ProbeStepState(AbstractCallbackStepState):
    steps: jax.Array
    dones: jax.Array


class ProbeCallback(AbstractCallback):
    """Harness-defined observer whose *state* counts the calls it receives (pure, so it survives
    jit/scan/vmap); at training end (top level of learn, outside scan/vmap/cond) it hands the counts,
    the iteration counter and the final environment states to the recorder."""

    recorder: Recorder = eqx.field(static=True)
    tag: str = eqx.field(static=True)

    def __init__(self, recorder, tag=""):
        self.recorder = recorder
        self.tag = tag

    def reset(self, ctx, *, key):
        return ProbeState(jnp.array(0, jnp.int32), jnp.array(0, jnp.int32))

    def step_reset(self, ctx, *, key):
        return ProbeStepState(jnp.array(0, jnp.int32), jnp.array(0, jnp.int32))

    def on_step(self, ctx, *, key):
        return ProbeStepState(ctx.state.steps + 1, ctx.state.dones + ctx.done.astype(jnp.int32))

    def on_iteration(self, ctx, *, key):
        rec = self.recorder

        def emit(it, n):
            rec.add(("iteration", self.tag, int(it), int(n)))

        # top level of the scan body over iterations: one event per executed iteration, in order
        jax.debug.callback(emit, ctx.iteration_count, ctx.state.iters + 1, ordered=True)
        return ProbeState(ctx.state.iters + 1, ctx.state.started)

    def on_training_start(self, ctx, *, key):
        return ProbeState(ctx.state.iters, ctx.state.started + 1)

    def on_training_end(self, ctx, *, key):
        rec = self.recorder
        st = ctx.locals.get("state")
        env_state = st.step_state.env_state if st is not None else None
        clock = getattr(env_state.unwrapped if env_state is not None else None, "t", jnp.array(-1))
        buffer = getattr(st.step_state, "buffer", None) if st is not None else None
        pos = buffer.position if buffer is not None else jnp.array(-1)

        def emit(it, iters, started, steps, dones, clock, pos):
            rec.add(("end", self.tag, int(it), int(iters), int(started), np.asarray(steps).tolist(),
                     np.asarray(dones).tolist(), np.asarray(clock).tolist(), np.asarray(pos).tolist()))

        jax.debug.callback(emit, ctx.iteration_count, ctx.state.iters, ctx.state.started, ctx.step_state.steps,
                           ctx.step_state.dones, clock, pos, ordered=True)
        return ctx.state

    def continue_training(self, ctx, *, key):
        return jnp.array(True)
